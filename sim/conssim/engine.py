"""conssim -- C07: expression identity is structural identity (sound hash-consing).

Real code: Context, Expr, Type, normalize, make_*, ctx.trace, ctx.call, Expr.rewrite with the real
rewriter, the real printers.  Simulator-owned: the history of construction requests (several
logical builders interleaved on one context, nested inside traced functions and ctx.call frames),
injected faults (exception at the k-th line event inside expr.py / context.py / typesystem.py
during an operation, after which the history continues on the same context), and an independent
structural model that never uses float equality, hash() or the package's keys.
"""

import struct
import sys
import warnings

from ..core import ddmin as dd
from ..core.log import EventLog, digest_of
from ..core.seeds import stream

# ------------------------------------------------------------------ values

ALIASES = {"+inf": "posinf", "inf": "posinf", "pinf": "posinf", "-inf": "neginf", "ninf": "neginf"}
NAMED = ["eps", "posinf", "neginf", "smallest", "largest", "smallest_subnormal", "pi", "undefined", "nan"]


def _f(x):
    return ["f", struct.pack("<d", x).hex()]


def _c(re, im):
    return ["c", struct.pack("<d", re).hex(), struct.pack("<d", im).hex()]


def _np(dtype, x):
    import numpy

    return ["np", dtype, numpy.dtype(dtype).type(x).tobytes().hex()]


def value_pool():
    inf = float("inf")
    nan = float("nan")
    pool = [["i", 0], ["i", 1], ["i", -1], ["i", 2], ["i", -2], ["i", 2**61 - 1], ["b", True], ["b", False]]
    pool += [_f(0.0), _f(-0.0), _f(1.0), _f(-1.0), _f(2.0), _f(0.5), _f(inf), _f(-inf), _f(nan), ["nan_singleton"]]
    pool += [_c(0.0, 0.0), _c(0.0, -0.0), _c(-0.0, 0.0), _c(-0.0, -0.0), _c(1.0, 0.0), _c(1.0, -0.0)]
    pool += [_c(nan, 1.0), _c(nan, 2.0), _c(3.0, nan), _c(nan, nan), _c(inf, nan), _c(inf, 1.0), _c(-inf, 1.0)]
    for dt in ("float16", "float32", "float64"):
        for x in (0.0, -0.0, 1.0, -1.0, inf, nan):
            pool.append(_np(dt, x))
    for dt in ("int8", "int16", "int32", "int64"):
        for x in (0, 1, -1):
            pool.append(_np(dt, x))
    for dt in ("complex64", "complex128"):
        for x in (0j, complex(0.0, -0.0), complex(-0.0, 0.0), 1 + 0j, complex(nan, 1.0), complex(nan, 2.0), complex(1.0, nan)):
            pool.append(_np(dt, x))
    # NumPy scalars whose *unpadded* per-byte hex renderings coincide (0x0110 / 0x1100, 0x3f800123 / 0x3f801203):
    # any key or name derived from such a rendering confuses them
    pool += [["np", "float16", "1001"], ["np", "float16", "0011"], ["np", "float32", "2301803f"], ["np", "float32", "0312803f"],
             ["np", "complex64", "2301803f00000000"], ["np", "complex64", "0312803f00000000"],
             ["np", "float32", "0000c03f"], ["np", "float64", "000000000000f83f"], ["np", "float16", "003e"]]
    pool += [["s", n] for n in NAMED] + [["s", a] for a in ALIASES]
    return pool


_NAN_SINGLETON = float("nan")


def decode_value(spec):
    import numpy

    t = spec[0]
    if t == "i":
        return int(spec[1])
    if t == "b":
        return bool(spec[1])
    if t == "f":
        return struct.unpack("<d", bytes.fromhex(spec[1]))[0]
    if t == "nan_singleton":
        return _NAN_SINGLETON
    if t == "c":
        return complex(struct.unpack("<d", bytes.fromhex(spec[1]))[0], struct.unpack("<d", bytes.fromhex(spec[2]))[0])
    if t == "np":
        return numpy.frombuffer(bytes.fromhex(spec[2]), dtype=spec[1])[0]
    if t == "s":
        return spec[1]
    raise KeyError(t)


def canon_value(v):
    """Exact structural identity of a constant value: (type, bits).  NumPy scalars are classified
    before Python scalars (numpy.float64 is a subclass of float)."""
    import numpy

    if isinstance(v, numpy.generic):
        raw = v.tobytes()
        if v.dtype.kind in "fc" and v.dtype.itemsize in (16, 32) and numpy.finfo(v.dtype).nmant == 63:
            # x87 extended precision: 10 significant bytes per component, the rest is uninitialised padding
            half = len(raw) // (2 if v.dtype.kind == "c" else 1)
            raw = b"".join(raw[i : i + 10] for i in range(0, len(raw), half))
        return ("np." + v.dtype.name, raw.hex())
    if isinstance(v, bool):
        return ("bool", v)
    if isinstance(v, int):
        return ("int", v)
    if isinstance(v, float):
        return ("float", struct.pack("<d", v).hex())
    if isinstance(v, complex):
        return ("complex", struct.pack("<d", v.real).hex() + struct.pack("<d", v.imag).hex())
    if isinstance(v, str):
        return ("str", ALIASES.get(v, v))
    return ("other:" + type(v).__name__, repr(v))


def is_nan_value(v):
    import numpy

    try:
        if isinstance(v, (float, numpy.floating)):
            return v != v
        if isinstance(v, (complex, numpy.complexfloating)):
            return v.real != v.real or v.imag != v.imag
    except Exception:
        pass
    return False


def same_up_to_nan_payload(a, b):
    """Same type; every component bit-identical, or NaN in both (whatever the payload)."""
    import numpy

    def comps(v):
        if isinstance(v, (complex, numpy.complexfloating)):
            return [v.real, v.imag]
        if isinstance(v, (float, numpy.floating)):
            return [v]
        return None

    x, y = comps(a), comps(b)
    if x is None or y is None or len(x) != len(y) or canon_value(a)[0] != canon_value(b)[0]:
        return False
    for p, q in zip(x, y):
        if canon_value(p) == canon_value(q):
            continue
        if not (p != p and q != q):
            return False
    return True


def differ_only_in_sign_of_zero(a, b):
    """Same type, and every component is either bit-identical or a +0/-0 pair."""
    import numpy

    def comps(v):
        if isinstance(v, (complex, numpy.complexfloating)):
            return [v.real, v.imag]
        if isinstance(v, (float, numpy.floating)):
            return [v]
        return None

    x, y = comps(a), comps(b)
    if x is None or y is None or len(x) != len(y):
        return False
    for p, q in zip(x, y):
        if canon_value(p) == canon_value(q):
            continue
        if not (p == 0 and q == 0):
            return False
    return True


def _has_nan_literal(op):
    for x in op:
        if isinstance(x, list):
            if len(x) == 2 and x[0] == "v":
                if x[1][0] != "s" and is_nan_value(decode_value(x[1])):
                    return True
            elif x and x[0] != "R" and _has_nan_literal(x):
                return True
    if op and op[0] == "const" and op[1][0] != "s" and is_nan_value(decode_value(op[1])):
        return True
    return False


def _numeric_slots(op, path=()):
    """Paths of the literal number operands (["v", spec]) of a resolved plain request."""
    out = []
    for i, x in enumerate(op):
        if isinstance(x, list) and x:
            if len(x) == 2 and x[0] == "v":
                out.append(path + (i,))
            elif x[0] not in ("R", "r", "t"):
                out += _numeric_slots(x, path + (i,))
    return out


def _with_slot(op, path, spec):
    import copy

    def cp(x):
        # shallow-copy lists but never the resolved expression objects
        if isinstance(x, list):
            if x and x[0] == "R":
                return x
            return [cp(y) for y in x]
        return x

    new = cp(op)
    cur = new
    for p in path[:-1]:
        cur = cur[p]
    cur[path[-1]] = ["v", spec]
    return new


def is_zero_value(v):
    if isinstance(v, (str, bool)):
        return False
    try:
        return v == 0
    except Exception:
        return False


TYPES = ["float", "float32", "float64", "float16", "complex", "complex64", "complex128", "int64", "int32", "boolean",
         "py:float", "py:complex", "py:int", "py:bool", "np:float32", "np:float64", "np:complex64", "np:int32",
         "list[float, float32]", "list[float32, float]", "list[float64]", "list[complex64, float32]"]


def decode_type(t):
    import numpy

    if t.startswith("py:"):
        return {"float": float, "complex": complex, "int": int, "bool": bool}[t[3:]]
    if t.startswith("np:"):
        return getattr(numpy, t[3:])
    return t


def type_shape(ty):
    """(kind, bits) or ("list", (shapes...)) of a Type object, read from its public attributes."""
    kind, param = getattr(ty, "kind", None), getattr(ty, "param", None)
    if kind == "list" and isinstance(param, tuple):
        return ("list", tuple(type_shape(p) for p in param))
    return (kind, param)


def expected_type(t):
    """(kind, bits) a type spelling denotes, written from the documentation of Type.fromobject."""
    import re

    if not isinstance(t, str):
        t = t.__name__
    if t.startswith("list[") and t.endswith("]"):
        return ("list", tuple(expected_type(x.strip()) for x in t[5:-1].split(",")))
    t = {"bool": "boolean", "bool_": "boolean"}.get(t, t)
    m = re.fullmatch(r"(float|complex|int|boolean)(\d*)", t)
    kind = {"int": "integer"}.get(m.group(1), m.group(1))
    return (kind, int(m.group(2)) if m.group(2) else None)


UNARY = ["negative", "positive", "absolute", "sqrt", "square", "exp", "expm1", "exp2", "log", "log1p", "log2", "log10",
         "sin", "cos", "tan", "sinh", "cosh", "tanh", "asin", "acos", "atan", "asinh", "acosh", "atanh",
         "asin_acos_kernel", "real", "imag", "conjugate", "logical_not", "is_finite", "upcast", "downcast",
         "ceil", "floor", "sign", "truncate", "round", "bitwise_invert", "is_inf", "is_nan", "is_negzero"]
BINARY = ["add", "subtract", "multiply", "divide", "pow", "minimum", "maximum", "atan2", "hypot", "complex",
          "lt", "gt", "le", "ge", "eq", "ne", "logical_and", "logical_or", "logical_xor",
          "bitwise_and", "bitwise_or", "bitwise_xor", "bitwise_left_shift", "bitwise_right_shift",
          "remainder", "floor_divide", "copysign", "nextafter"]
OPERATORS = {
    "add": lambda a, b: a + b, "subtract": lambda a, b: a - b, "multiply": lambda a, b: a * b,
    "divide": lambda a, b: a / b, "pow": lambda a, b: a**b, "lt": lambda a, b: a < b, "gt": lambda a, b: a > b,
    "le": lambda a, b: a <= b, "ge": lambda a, b: a >= b, "eq": lambda a, b: a == b, "ne": lambda a, b: a != b,
    "remainder": lambda a, b: a % b, "floor_divide": lambda a, b: a // b,
    "negative": lambda a: -a, "positive": lambda a: +a, "absolute": lambda a: abs(a),
    "bitwise_and": lambda a, b: a & b, "bitwise_or": lambda a, b: a | b, "bitwise_xor": lambda a, b: a ^ b,
}
MIRROR = {"lt": "gt", "gt": "lt", "le": "ge", "ge": "le", "eq": "eq", "ne": "ne"}
ARITH = ("add", "subtract", "multiply", "negative")
LIB = [("hypot", ["float", "float"]), ("square", ["complex"]), ("square", ["float"]), ("absolute", ["complex"]),
       ("asinh", ["float"]), ("sqrt", ["complex"]), ("log1p", ["float"]), ("acos", ["float"]), ("atanh", ["complex"])]


class InjectedFault(BaseException):
    pass


class UserAbort(Exception):
    """An ordinary exception raised half-way by a traced / called user function."""


# ------------------------------------------------------------------ case generation


def gen_ops(rng, kn, n, depth=0):
    ops = []
    pool = kn["pool"]
    for _ in range(n):
        r = rng.random()
        fault = None
        if rng.random() < kn["p_fault"]:
            fault = rng.randint(1, kn["fault_span"])

        def ref():
            return ["r", rng.randrange(1 << 16)]

        def operand():
            if rng.random() < kn["p_num_operand"]:
                return ["v", rng.choice(pool)]
            return ref()

        if r < 0.10:
            # (an untyped request means the context's default type, whatever was declared under that name before)
            op = ["sym", rng.choice(["x", "y", "z"]), rng.choice(kn["types"]) if rng.random() < 0.8 else None]
        elif r < 0.10 + kn["p_const"]:
            lk = rng.random()
            like = ref() if lk < 0.6 else (["t", rng.choice(kn["types"])] if lk < 0.8 else None)
            op = ["const", rng.choice(pool), like]
        elif r < 0.72:
            if rng.random() < 0.35:
                kind = rng.choice(kn["unary"])
                args = [operand() if rng.random() < 0.1 else ref()]
            else:
                kind = rng.choice(kn["binary"])
                args = [operand(), operand()]
            via = rng.choice(["ctx", "ctx", "operator", "Expr"])
            op = ["op", kind, args, via]
        elif r < 0.76:
            op = ["select", ref(), operand(), operand()]
        elif r < 0.795:
            op = ["list", [ref() for _ in range(rng.randint(1, 3) if rng.random() < 0.7 else rng.randint(8, 13))]]
        elif r < 0.80:
            # a wide list and a look-alike of it (same items, last two swapped), then the same parent over both
            items = [ref() for _ in range(rng.randint(9, 12))]
            op = ["list_pair", items, rng.choice(["len", "item", "list"])]
        elif r < 0.82:
            op = ["item", ref(), rng.choice([0, 1, ["v", ["np", "int64", (0).to_bytes(8, "little").hex()]]])]
        elif r < 0.83:
            op = ["len", ref()]
        elif r < 0.88 and depth < 2 and kn["p_nested"] > 0:
            how = rng.choice(["trace", "call"])
            nargs = rng.randint(1, 2)
            body = gen_ops(rng, kn, rng.randint(1, 6), depth + 1)
            if rng.random() < 0.3:
                # the user function raises an ordinary exception half-way; what it built stays alive
                body.insert(rng.randint(1, len(body)), ["raise"])
            op = [how, [rng.choice(kn["types"]) for _ in range(nargs)], body]
        elif r < 0.88 + kn["p_lib"] and depth == 0:
            name, sig = rng.choice(LIB)
            op = ["lib", name, sig, rng.choice(["none", "python", "numpy", "stablehlo"])]
        elif r < 0.905:
            op = ["inspect", ref()]
        elif r < 0.94:
            op = ["rewrite", ref()]
        elif r < 0.97:
            op = ["print", ref(), rng.choice(["python", "numpy", "stablehlo", "cpp"])]
        elif r < 0.972 and depth == 0:
            # kinds whose names are prefixes of other kinds' names (log / log2 / log10 / log1p, exp / exp2): the longer
            # kind over one expression, the shorter kind over every expression built so far, each under the same parent
            op = ["prefix_kinds", rng.choice([["log2", "log"], ["log10", "log"], ["exp2", "exp"], ["log1p", "log"], ["log10", "log1p"]]),
                  ref(), rng.choice(["sqrt", "negative", "square", "absolute"])]
        elif r < 0.98 and depth == 0 and kn.get("races"):
            # two builders on two contexts in two threads; the schedule decides who runs at every line event
            # inside the constructor / registry (process-global state is all they share)
            def plain(n):
                return [o for o in gen_ops(rng, dict(kn, p_fault=0.0, p_nested=0, p_lib=0.0, races=False), n, 2)
                        if o[0] in ("sym", "const", "op", "select", "list")]

            p_sw = rng.choice([0.05, 0.2, 0.5])
            op = ["race", plain(rng.randint(2, 6)), plain(rng.randint(2, 6)),
                  [(rng.randrange(2) if rng.random() < p_sw else -1) for _ in range(600)]]
        elif r < 0.985:
            op = ["again", rng.randrange(1 << 16)]
        else:
            # an earlier request again (new number objects of equal value, which then die), immediately
            # followed by the same request with one number changed
            op = ["again_then_vary", rng.randrange(1 << 16), rng.choice(pool)]
        if fault is not None and op[0] not in ("again", "again_then_vary", "race"):
            op = ["fault", fault, op]
        ops.append(op)
    return ops


def confusable_values(rng, n):
    """Seeded values and their look-alikes: the same number in another type, its float neighbour, its
    negation, a byte permutation, a value with the same str() / the same float() / the same int() -- so that
    a key or a name derived from *any* lossy rendering of a value meets two values it confuses."""
    import numpy

    out = []
    dts = ["float16", "float32", "float64"]
    for _ in range(n):
        dt = rng.choice(dts)
        nbytes = numpy.dtype(dt).itemsize
        raw = bytearray(rng.getrandbits(8) for _ in range(nbytes))
        if rng.random() < 0.5:
            raw[rng.randrange(nbytes)] = rng.choice([0x00, 0x01, 0x0F, 0x10, 0x11])
        v = numpy.frombuffer(bytes(raw), dtype=dt)[0]
        if v != v or abs(float(v)) == float("inf"):
            continue
        out.append(["np", dt, bytes(raw).hex()])
        how = rng.choice(["swap", "other-type", "python", "neighbour", "negate", "nibble"])
        if how == "swap" and nbytes > 1:
            i, j = rng.sample(range(nbytes), 2)
            raw2 = bytearray(raw)
            raw2[i], raw2[j] = raw2[j], raw2[i]
            out.append(["np", dt, bytes(raw2).hex()])
        elif how == "nibble":
            # 0x01 0x10 <-> 0x11 0x00 style regrouping of hex digits
            raw2 = bytearray(raw)
            i = rng.randrange(nbytes - 1) if nbytes > 1 else 0
            pair = (raw[i] << 8) | raw[(i + 1) % nbytes]
            pair = ((pair << 4) | (pair >> 12)) & 0xFFFF
            raw2[i], raw2[(i + 1) % nbytes] = pair >> 8, pair & 0xFF
            out.append(["np", dt, bytes(raw2).hex()])
        elif how == "other-type":
            dt2 = rng.choice([d for d in dts if d != dt])
            with numpy.errstate(all="ignore"):
                out.append(["np", dt2, numpy.dtype(dt2).type(v).tobytes().hex()])
        elif how == "python":
            out.append(_f(float(v)))
            if float(v) == int(float(v)) and abs(float(v)) < 2**62:
                out.append(["i", int(float(v))])
        elif how == "neighbour":
            w = numpy.nextafter(v, numpy.dtype(dt).type(numpy.inf))
            out.append(["np", dt, w.tobytes().hex()])
        else:
            out.append(["np", dt, (-v).tobytes().hex()])
    return out


def make_case(seed, tier="quick"):
    kn_rng = stream(seed, "knobs")
    ops_rng = stream(seed, "ops")
    full = value_pool() + confusable_values(stream(seed, "values"), 6)
    style = kn_rng.choice(["all", "zeros", "nonzero", "python-only", "numpy-only", "named"])
    if style == "zeros":
        pool = [v for v in full if v[0] != "s" and is_zero_value(decode_value(v))] + [["i", 1], _f(1.0)]
    elif style == "nonzero":
        pool = [v for v in full if v[0] == "s" or not is_zero_value(decode_value(v))]
    elif style == "python-only":
        pool = [v for v in full if v[0] not in ("np",)]
    elif style == "numpy-only":
        pool = [v for v in full if v[0] == "np"]
    elif style == "named":
        pool = [v for v in full if v[0] == "s"] + [_f(float("inf")), _f(-float("inf")), _f(float("nan"))]
    else:
        pool = full
    arith_only = kn_rng.random() < 0.3
    kn = {
        "pool": pool,
        "types": ["float", "float64"] if arith_only else [t for t in TYPES if kn_rng.random() < 0.6] or ["float"],
        "unary": ["negative"] if arith_only else [k for k in UNARY if kn_rng.random() < 0.5] or ["negative"],
        "binary": ["add", "subtract", "multiply"] if arith_only else [k for k in BINARY if kn_rng.random() < 0.5] or ["add"],
        "p_const": kn_rng.choice([0.1, 0.25, 0.4]),
        "p_num_operand": kn_rng.choice([0.1, 0.3, 0.5]),
        "p_fault": kn_rng.choice([0.0, 0.0, 0.03, 0.08, 0.15]),
        "fault_span": kn_rng.choice([5, 20, 60, 300]),
        "p_nested": kn_rng.choice([0, 1]),
        "p_lib": kn_rng.choice([0.0, 0.0, 0.02, 0.05]),
        "races": kn_rng.random() < 0.3,
    }
    if arith_only:
        kn["pool"] = [v for v in pool if v[0] in ("f", "i") and not is_nan_value(decode_value(v))
                      and abs(decode_value(v)) != float("inf")] or [_f(0.0), _f(-0.0), _f(1.0)]
    alt = kn_rng.random() < 0.25
    dct = kn_rng.choice(["float", "float32", "float64"]) if alt or kn_rng.random() < 0.15 else None
    n = kn_rng.randint(5, 120 if tier == "thorough" else 80)
    ops = gen_ops(ops_rng, kn, n)
    if kn_rng.random() < 0.3:
        # two contexts used alternately in one process
        sw = stream(seed, "contexts")
        cur = 0
        wrapped = []
        for op in ops:
            if sw.random() < 0.2:
                cur = 1 - cur
            wrapped.append(["in", cur, op])
        ops = wrapped
    return {"seed": seed, "alt": alt, "default_constant_type": dct, "ops": ops, "inputs_seed": seed & 0xFFFF}


# ------------------------------------------------------------------ the structural model + executor


class Sim:
    def __init__(self, case):
        import functional_algorithms as fa
        from functional_algorithms.expr import Expr
        from functional_algorithms.typesystem import Type

        self.fa = fa
        self.Expr = Expr
        self.Type = Type
        self.case = case
        self.log = EventLog(keep=False)
        self.ctx = fa.Context(paths=[fa.algorithms], enable_alt=case.get("alt") or None,
                              default_constant_type=case.get("default_constant_type"))
        self.vals = []  # completed results (Expr objects), kept alive
        self.done = []  # (callable, description) of completed plain constructions, for "again"
        self.req_tree = {}  # id(obj) -> request tree for arithmetic roots
        self.req_roots = []
        # a second context of the same process, used alternately (expressions are singletons per context;
        # nothing of one context may surface in the other)
        self.bundles = [None, None]
        self.current = 0
        self.keep = []  # every registered object, kept alive so that id() stays unique
        self.fingerprints = {}  # fingerprint -> object
        self.violations = []
        self.stats = {}
        self.probes = {}
        self.faults = {}
        self.states = set()
        self.steps = 0
        self.wrapped = False
        self.in_wrapper = 0

    def switch(self, k):
        if k == self.current:
            return
        names = ("ctx", "vals", "done", "req_tree", "req_roots")
        self.bundles[self.current] = {n: getattr(self, n) for n in names}
        nb = self.bundles[k]
        if nb is None:
            nb = dict(ctx=self.fa.Context(paths=[self.fa.algorithms], enable_alt=self.case.get("alt") or None,
                                          default_constant_type=self.case.get("default_constant_type")),
                      vals=[], done=[], req_tree={}, req_roots=[])
            self.bump(self.probes, "second_context_in_one_process")
        for n in names:
            setattr(self, n, nb[n])
        self.current = k
        self.log.ev("switch", k)

    # ---- bookkeeping
    def bump(self, d, k, n=1):
        d[k] = d.get(k, 0) + n

    def violation(self, cls, key, **detail):
        self.log.ev("VIOLATION", cls, key)
        if len(self.violations) < 20 and not any(v["cls"] == cls and v["key"] == key for v in self.violations):
            self.violations.append({"cls": cls, "key": key, "detail": detail})

    # ---- equivalence of a candidate and what the table returned (check 3)
    def value_key(self, a, b):
        """'' if a and b are the same structural value, else a short description."""
        Expr, Type = self.Expr, self.Type
        if isinstance(a, Expr) or isinstance(b, Expr):
            return "" if a is b else "operand-identity"
        if isinstance(a, Type) or isinstance(b, Type):
            return "" if a is b else "type-identity"
        ca, cb = canon_value(a), canon_value(b)
        if ca == cb:
            return ""
        if ca[0] != cb[0]:
            return "value-type:%s/%s" % (ca[0], cb[0])
        if differ_only_in_sign_of_zero(a, b):
            return "signed-zero:%s" % ca[0]
        if same_up_to_nan_payload(a, b):
            return ""  # NaN payloads: either outcome accepted (component by component for complex values)
        return "value:%s" % ca[0]

    def check_equiv(self, cand, got, where):
        if cand is got:
            return
        if cand.kind != got.kind or len(cand.operands) != len(got.operands):
            self.violation("alias", "%s|kind" % where, candidate=repr(cand), returned=repr(got))
            return
        for a, b in zip(cand.operands, got.operands):
            k = self.value_key(a, b)
            if k:
                self.violation("alias", "%s|%s" % (where, k), kind=cand.kind, candidate=repr(cand), returned=repr(got))
                return

    def install_wrapper(self):
        Context = self.fa.Context
        orig = getattr(Context, "_register_expression", None)
        if orig is None:
            return
        sim = self

        def wrapper(ctx, expr):
            got = orig(ctx, expr)
            sim.keep.append(got)  # (the discarded candidate is *not* kept: it must die as it does in user code)
            sim.bump(sim.stats, "registrations")
            if got is not expr:
                sim.bump(sim.stats, "registrations_hit")
                sim.check_equiv(expr, got, "register")
            return got

        Context._register_expression = wrapper
        self.wrapped = True

    # ---- fingerprint bijection (check 2: the `if` direction)
    def fingerprint(self, obj):
        parts = [obj.kind, id(obj.context)]
        for o in obj.operands:
            if isinstance(o, (self.Expr, self.Type)):
                parts.append(("id", id(o)))
            else:
                parts.append(canon_value(o))
        return tuple(parts)

    def note_object(self, obj):
        for i, o in enumerate(obj.operands):
            if isinstance(o, self.Expr):
                home = obj.context
                if obj.kind == "constant" and i == 0:
                    home = getattr(obj.context, "_alt", None) or obj.context  # a constant's value lives in the alternative context
                if o.context is not home and o.context is not obj.context:
                    self.violation("alias", "operand-from-another-context", kind=obj.kind, operand=repr(o))
        if obj.kind == "constant" and is_nan_value(obj.operands[0]):
            return
        fp = self.fingerprint(obj)
        prev = self.fingerprints.get(fp)
        if prev is None:
            self.fingerprints[fp] = obj
            self.states.add(digest_of([obj.kind, [(o.kind if isinstance(o, self.Expr) else (o if isinstance(o, str) else canon_value(o)[0])) for o in obj.operands]])[:8])
        elif prev is not obj:
            self.violation("duplicate", obj.kind, a=repr(prev), b=repr(obj),
                           note="two distinct objects for one structure (same kind, same operand objects, same value bits)")

    # ---- resolution of literal arguments
    def ref(self, spec):
        if spec[0] == "R":  # already resolved (see resolve())
            return spec[1]
        if not self.vals:
            self.vals.append(self.ctx.symbol("x", "float"))
        return self.vals[spec[1] % len(self.vals)]

    def operand(self, spec):
        if spec[0] in ("r", "R"):
            return self.ref(spec)
        # a fresh number object every time, dropped after the request: temporaries die as in user code,
        # so that anything keyed by the address of a number meets recycled addresses
        return decode_value(spec[1])

    def resolve(self, op):
        """The request with its expression references resolved to objects (numbers stay literal specs),
        so that it can be re-issued verbatim later with *new* number objects of equal value."""
        def r(x):
            if isinstance(x, list) and len(x) == 2 and x[0] == "r" and isinstance(x[1], int):
                return ["R", self.ref(x)]
            if isinstance(x, list) and x and x[0] != "R":
                return [r(y) for y in x]
            return x

        return [op[0]] + [r(y) for y in op[1:]]

    # ---- request vs result (check 1: the `only if` direction)
    def const_value_of(self, obj):
        """The plain value carried by a constant (through the alternative context if enabled)."""
        v = obj.operands[0]
        if isinstance(v, self.Expr):
            if v.kind == "constant":
                return self.const_value_of(v)
            return None
        return v

    def check_constant(self, obj, value, where):
        if obj.kind != "constant":
            self.violation("alias", "%s|kind" % where, requested="constant", returned=repr(obj))
            return
        got = self.const_value_of(obj)
        if got is None:
            self.bump(self.stats, "constant_value_not_plain")
            return
        k = self.value_key(value, got)
        if k:
            self.violation("alias", "%s|%s" % (where, k), requested=repr(value), requested_canon=canon_value(value),
                           returned=repr(obj), returned_canon=canon_value(got))

    def check_op(self, res, kind, args, where="request", accept_kind=None, pow_rule=True):
        Expr = self.Expr
        if accept_kind is not None and res.kind == accept_kind:
            kind = accept_kind
        if kind == "pow" and len(args) == 2 and pow_rule:
            if type(args[1]) is float and args[1] == 0.5:
                kind, args = "sqrt", args[:1]
            elif type(args[1]) is int and args[1] == 2:
                kind, args = "square", args[:1]
        alt = self.ctx.alt is not None
        if res.kind != kind:
            if alt and res.kind == "constant" and isinstance(res.operands[0], Expr):
                # all operands constant: folded into one constant of the alternative context
                inner = res.operands[0]
                if accept_kind is not None and inner.kind == accept_kind:
                    kind = accept_kind
                if inner.kind != kind or len(inner.operands) != len(args):
                    self.violation("alias", "%s|folded-kind" % where, requested=kind, returned=repr(inner))
                    return
                self.bump(self.probes, "alt_context_constant_folding")
                for a, o in zip(args, inner.operands):
                    if isinstance(a, Expr):
                        if a.kind != "constant" or a.operands[0] is not o:
                            self.violation("alias", "%s|folded-operand" % where, requested=repr(a), returned=repr(o))
                    else:
                        self.check_constant(o, a, where + "-folded")
                return
            self.violation("alias", "%s|kind" % where, requested=kind, returned=repr(res))
            return
        if len(res.operands) != len(args):
            self.violation("alias", "%s|arity" % where, requested=kind, returned=repr(res))
            return
        for a, o in zip(args, res.operands):
            if isinstance(a, Expr):
                if a is not o:
                    self.violation("alias", "%s|operand-identity" % where, kind=kind, requested=repr(a), returned=repr(o))
            else:
                self.check_constant(o, a, where)

    # ---- one construction request
    def do_plain(self, op):
        """Returns (callable that performs the request, checker(result))."""
        ctx, Expr = self.ctx, self.Expr
        t = op[0]
        if t == "sym":
            if op[2] is None:
                name = op[1]
                default = self.case.get("default_constant_type") or "float"
                return (lambda: ctx.symbol(name)), (lambda r: self.check_symbol(r, name, default))
            name, typ = op[1], decode_type(op[2])
            return (lambda: ctx.symbol(name, typ)), (lambda r: self.check_symbol(r, name, typ))
        if t == "const":
            value = decode_value(op[1])
            like = op[2]
            if like is None:
                return (lambda: ctx.constant(value)), (lambda r: self.check_constant(r, value, "request"))
            if like[0] == "t":
                ty = decode_type(like[1])

                def check_typed(r):
                    self.check_constant(r, value, "request")
                    # "... and its reference type": a like given as a type must be attached as that very type
                    if r.kind == "constant" and len(r.operands) == 2:
                        got = r.operands[1]
                        exp = expected_type(ty)
                        if getattr(got, "kind", None) != "symbol" or type_shape(got.operands[1]) != exp:
                            self.violation("alias", "request|reference-type", requested=list(exp) if exp[0] != "list" else str(exp),
                                           returned=repr(r))

                return (lambda: ctx.constant(value, ty)), check_typed
            lk = self.ref(like)
            return (lambda: ctx.constant(value, lk)), (lambda r: self.check_constant(r, value, "request"))
        if t == "op":
            kind, via = op[1], op[3]
            args = [self.operand(a) for a in op[2]]
            if via == "operator" and any(type(a).__module__ == "numpy" for a in args):
                # a NumPy scalar on either side of a Python operator is converted by NumPy itself
                # (object-array fallback) before the library sees it: not the library's behaviour
                via = "ctx"
            if via == "operator" and kind in OPERATORS and any(isinstance(a, Expr) for a in args):
                fn = OPERATORS[kind]
                call = lambda: fn(*args)  # noqa: E731
                # Python's own operator protocol, not the library: a reflected comparison swaps the
                # operands and mirrors the direction; &,|,^ on two boolean expressions are documented
                # to build logical_* nodes
                if kind in MIRROR and not isinstance(args[0], Expr):
                    xkind, xargs = MIRROR[kind], args[::-1]
                    return call, (lambda r: self.check_op(r, xkind, xargs))
                if kind.startswith("bitwise_"):
                    return call, (lambda r: self.check_op(r, kind, args, accept_kind="logical_" + kind[8:]))
            elif via == "ctx" and hasattr(ctx, kind) and kind != "bitwise_invert":
                call = lambda: getattr(ctx, kind)(*args)  # noqa: E731
            else:
                call = lambda: Expr(ctx, kind, tuple(args))  # noqa: E731
                return call, (lambda r: self.check_op(r, kind, args, pow_rule=False))
            return call, (lambda r: self.check_op(r, kind, args))
        if t == "select":
            c = self.ref(op[1])
            a, b = self.operand(op[2]), self.operand(op[3])
            return (lambda: ctx.select(c, a, b)), (lambda r: self.check_op(r, "select", [c, a, b]))
        if t == "list":
            items = [self.ref(a) for a in op[1]]
            return (lambda: ctx.list(items)), (lambda r: self.check_op(r, "list", items))
        if t == "item":
            c = self.ref(op[1])
            idx = op[2] if isinstance(op[2], int) else decode_value(op[2][1])
            return (lambda: ctx.item(c, idx)), (lambda r: self.check_op(r, "item", [c, idx]))
        if t == "len":
            c = self.ref(op[1])
            return (lambda: ctx.len(c)), (lambda r: self.check_op(r, "len", [c]))
        raise KeyError(t)

    def check_symbol(self, r, name, typ):
        if r.kind != "symbol" or r.operands[0] != name:
            self.violation("alias", "request|symbol-name", requested=name, returned=repr(r))
            return
        exp = expected_type(typ)  # independent of the package's own Type table
        got = r.operands[1]
        if type_shape(got) != exp:
            self.violation("alias", "request|symbol-type", requested=list(exp), returned=repr(r))

    def record_tree(self, op, res):
        """Request trees of arithmetic roots, for the observable-consequence check."""
        if op[0] == "sym":
            if op[2] in ("float", "float64", "py:float") or (op[2] is None and not self.case.get("default_constant_type")):
                self.req_tree[id(res)] = ("s", op[1], op[2])
        elif op[0] == "op" and op[1] in ARITH:
            sub = []
            for a in op[2]:
                if a[0] in ("r", "R"):
                    t = self.req_tree.get(id(self.ref(a)))
                else:
                    v = decode_value(a[1])
                    t = ("k", v) if type(v) in (float, int) and v == v and abs(v) != float("inf") else None
                if t is None:
                    return
                sub.append(t)
            self.req_tree[id(res)] = (op[1], *sub)
            self.req_roots.append(res)

    def run_ops(self, ops, local=None):
        last = None
        for op in ops:
            r = self.step(op)
            if r is not None:
                last = r
        return last

    def with_fault(self, k, fn):
        """Run fn(); raise InjectedFault at the k-th line event inside expr.py/context.py/typesystem.py."""
        count = [0]
        files = ("functional_algorithms/expr.py", "functional_algorithms/context.py", "functional_algorithms/typesystem.py")

        def local(frame, event, arg):
            if event == "line":
                count[0] += 1
                if count[0] == k:
                    fname = frame.f_code.co_filename.rsplit("/", 1)[-1]
                    self.bump(self.faults, "injected_fault_in:" + fname)
                    func = frame.f_code.co_name
                    if func in ("_register_expression", "__new__", "_register_reference", "_compute_serialized"):
                        self.bump(self.probes, "fault_inside_" + func.strip("_"))
                    self.log.ev("fault", fname, func, frame.f_lineno - frame.f_code.co_firstlineno)
                    raise InjectedFault()
            return local

        def glob(frame, event, arg):
            if event == "call" and frame.f_code.co_filename.endswith(files) and count[0] < k:
                return local
            return None

        old = sys.gettrace()
        sys.settrace(glob)
        try:
            return fn()
        finally:
            sys.settrace(old)

    def step(self, op, fault=None):
        self.steps += 1
        if op[0] == "fault":
            return self.step(op[2], fault=op[1])
        if op[0] == "in":
            self.switch(op[1])
            return self.step(op[2], fault)
        t = op[0]
        self.log.ev("op", t, op[1] if len(op) > 1 and isinstance(op[1], str) else None)
        self.bump(self.stats, "ops")
        if t == "raise":
            self.bump(self.faults, "user_function_raised_halfway")
            raise UserAbort("user function failed half-way")
        try:
            if t in ("sym", "const", "op", "select", "list", "item", "len"):
                op = self.resolve(op)
                call, check = self.do_plain(op)
                res = self.with_fault(fault, call) if fault else call()
                if not isinstance(res, self.Expr):
                    self.bump(self.stats, "non_expr_result")
                    return None
                check(res)
                del call, check  # drops the number objects of this request
                self.note_object(res)
                self.record_tree(op, res)
                self.done.append((op, res))
                self.vals.append(res)
                self.bump(self.stats, "completed:" + t)
                self.log.ev("ok", res.kind, len(res.operands))
                return res
            if t == "again":
                if not self.done:
                    return None
                op0, prev = self.done[op[1] % len(self.done)]
                call, check = self.do_plain(op0)  # same expression operands, new number objects of equal value
                res = call()
                check(res)
                del call, check
                self.bump(self.stats, "again")
                if res is not prev and not (prev.kind == "constant" and is_nan_value(self.const_value_of(prev))) \
                        and not _has_nan_literal(op0):
                    # (a request with a NaN literal builds a NaN constant; two NaN constants may or may not
                    # be one object, so neither may the expressions built on them)
                    self.violation("duplicate", "again:" + prev.kind, first=repr(prev), second=repr(res))
                return res
            if t == "prefix_kinds":
                (long_kind, short_kind), parent = op[1], op[3]
                u = self.ref(op[2])
                a1 = self.step(["op", long_kind, [["R", u]], "Expr"])
                if a1 is None:
                    return None
                self.step(["op", parent, [["R", a1]], "Expr"])
                self.bump(self.probes, "prefix_kind_sweeps")
                for v in list(self.vals)[-120:]:
                    b1 = self.step(["op", short_kind, [["R", v]], "Expr"])
                    if b1 is not None:
                        self.step(["op", parent, [["R", b1]], "Expr"])
                return None
            if t == "list_pair":
                items = [["R", self.ref(x)] for x in op[1]]
                if items[-1][1] is items[-2][1]:
                    return None
                swapped = items[:-2] + [items[-1], items[-2]]
                l1 = self.step(["list", items])
                l2 = self.step(["list", swapped])
                if l1 is None or l2 is None:
                    return None
                self.bump(self.probes, "wide_list_and_its_permutation")
                for lst in (l1, l2):
                    if op[2] == "len":
                        self.step(["len", ["R", lst]])
                    elif op[2] == "item":
                        self.step(["item", ["R", lst], 0])
                    else:
                        self.step(["list", [["R", lst], ["R", items[0][1]]]])
                return None
            if t == "race":
                return self.do_race(op)
            if t == "again_then_vary":
                cands = [d for d in self.done if _numeric_slots(d[0])]
                if not cands:
                    return None
                op0, prev = cands[op[1] % len(cands)]
                self.step(["again", self.done.index((op0, prev))])
                slots = _numeric_slots(op0)
                varied = _with_slot(op0, slots[op[1] % len(slots)], op[2])
                self.bump(self.probes, "request_repeated_then_varied_in_one_number")
                return self.step(varied)
            if t in ("trace", "call"):
                return self.do_nested(op, fault)
            if t == "lib":
                return self.do_lib(op, fault)
            if t == "rewrite":
                root = self.ref(op[1])
                fn = lambda: root.rewrite(self.fa.rewrite)  # noqa: E731
                res = self.with_fault(fault, fn) if fault else fn()
                self.bump(self.stats, "completed:rewrite")
                if isinstance(res, self.Expr):
                    self.vals.append(res)
                return res
            if t == "inspect":
                # read-only API on an existing expression (types, predicates, printing, keys, indexing): whatever it
                # caches or registers on the way is history for the constructions that follow
                obj = self.ref(op[1])

                def look():
                    obj.get_type()
                    obj.is_complex
                    str(obj)
                    repr(obj)
                    obj.key
                    obj.intkey
                    obj._is_zero
                    obj._is_finite
                    if obj.kind == "list":
                        len(obj)
                        obj[0]
                    return None

                self.with_fault(fault, look) if fault else look()
                self.bump(self.stats, "completed:inspect")
                return None
            if t == "print":
                return self.do_print(op, fault)
            raise KeyError(t)
        except InjectedFault:
            self.bump(self.stats, "aborted_by_injected_fault")
            self.log.ev("aborted")
            return None
        except RuntimeError as e:
            if "re-register" in str(e):
                self.bump(self.probes, "reregister_runtime_error")
            self.bump(self.faults, "rejected:" + type(e).__name__)
            self.log.ev("rejected", type(e).__name__)
            return None
        except (AssertionError, TypeError, ValueError, NotImplementedError, KeyError, AttributeError, IndexError,
                OverflowError, ZeroDivisionError, RecursionError, UserAbort) as e:
            self.bump(self.faults, "rejected:" + type(e).__name__)
            self.log.ev("rejected", type(e).__name__)
            return None

    def do_race(self, op):
        import copy
        import threading

        from ..fpusim.engine import Scheduler

        _, ops_a, ops_b, schedule = op
        # two views of this simulation, each on its own context, sharing verdicts and bookkeeping
        self.switch(1)
        self.switch(0)
        views = []
        for k in (0, 1):
            v = copy.copy(self)
            names = ("ctx", "vals", "done", "req_tree", "req_roots")
            src = self if k == self.current else self.bundles[k]
            for n in names:
                setattr(v, n, getattr(src, n) if k == self.current else src[n])
            views.append(v)
        sched = Scheduler(2, schedule, self.log)
        files = ("functional_algorithms/expr.py", "functional_algorithms/context.py", "functional_algorithms/typesystem.py")
        errors = []

        def tracer_for(tid):
            def local(frame, event, arg):
                if event == "line":
                    sched.point(tid, "cons")
                return local

            def glob(frame, event, arg):
                if frame.f_code.co_filename.endswith(files):
                    return local
                return None

            return glob

        def body(tid, ops):
            sched.wait_turn(tid)
            sys.settrace(tracer_for(tid))
            try:
                for o in ops:
                    views[tid].step(o)
            except BaseException as e:  # harness trouble
                errors.append(repr(e))
            finally:
                sys.settrace(None)
                sched.finish(tid)

        ths = [threading.Thread(target=body, args=(t, o), daemon=True) for t, o in ((0, ops_a), (1, ops_b))]
        for th in ths:
            th.start()
        sched.start()
        sched.done.acquire()
        for th in ths:
            th.join()
        self.steps += views[0].steps + views[1].steps - 2 * self.steps
        if errors:
            raise RuntimeError("race thread error: " + "; ".join(errors))
        self.bump(self.probes, "two_builders_raced_on_two_contexts")
        self.bump(self.stats, "race_thread_switches", sched.switches)
        return None

    def do_nested(self, op, fault):
        how, types, body = op
        ctx = self.ctx
        sim = self
        names = ["x", "y"][: len(types)]

        if len(names) == 1:
            def user_fn(ctx, x):
                sim.vals.append(x)
                r = sim.run_ops(body)
                result = r if r is not None else x
                return ctx(result)
        else:
            def user_fn(ctx, x, y):
                sim.vals.extend([x, y])
                r = sim.run_ops(body)
                result = r if r is not None else x
                return ctx(result)

        if how == "trace":
            sig = ["%s:%s" % (n, t) for n, t in zip(names, types) if not t.startswith(("py:", "np:"))]
            if len(sig) != len(names):
                sig = [decode_type(t) if t.startswith("py:") else "x:float" for t in types]
                sig = [s if isinstance(s, (str, type)) else "x:float" for s in sig]
            fn = lambda: ctx.trace(user_fn, *sig)  # noqa: E731
        else:
            args = [self.ref(["r", i * 7919]) for i in range(len(names))]
            fn = lambda: ctx.call(user_fn, args)  # noqa: E731
            self.bump(self.probes, "ctx_call_stack_frame")
        stack_before = getattr(ctx, "_stack_name", None)
        try:
            res = self.with_fault(fault, fn) if fault else fn()
        finally:
            if getattr(ctx, "_stack_name", None) != stack_before:
                # An exception injected between `self._stack_name = ...` and the `try:` in Context.call
                # leaves the call-frame prefix set.  That is naming state (origin of later expressions),
                # not expression identity: C07 does not speak about it, so it is counted, not flagged,
                # and the prefix is put back so that the rest of the history is not spent inside it.
                self.bump(self.probes, "stack_name_left_set_by_fault_before_try")
                ctx._stack_name = stack_before
        self.bump(self.stats, "completed:" + how)
        if isinstance(res, self.Expr):
            self.vals.append(res)
        return res

    def do_lib(self, op, fault):
        _, name, sig, target = op
        fa = self.fa
        f = getattr(fa.algorithms, name)

        def fn():
            g = self.ctx.trace(f, *[decode_type(s) if ":" in s else s for s in sig])
            if target != "none":
                tm = getattr(fa.targets, target)
                g = g.rewrite(tm, fa.rewrite)
                g.tostring(tm)
            return g

        res = self.with_fault(fault, fn) if fault else fn()
        self.bump(self.stats, "completed:lib")
        return None

    def free_symbols(self, tree, acc):
        if tree[0] == "s":
            if tree[1] not in acc:
                acc.append(tree[1])
        elif tree[0] != "k":
            for s in tree[1:]:
                self.free_symbols(s, acc)

    def eval_tree(self, tree, env):
        t = tree[0]
        if t == "s":
            return env[tree[1]]
        if t == "k":
            return tree[1]
        a = self.eval_tree(tree[1], env)
        if t == "negative":
            return -(a)
        b = self.eval_tree(tree[2], env)
        if t == "add":
            return a + b
        if t == "subtract":
            return a - b
        return a * b

    def do_print(self, op, fault):
        root = self.ref(op[1])
        target = op[2]
        fa, ctx = self.fa, self.ctx
        tree = self.req_tree.get(id(root))
        tm = getattr(fa.targets, target)
        if tree is not None and target == "python" and ctx.alt is None:
            return self.observe(root, tree, fault)
        return self.plain_print(root, tm, fault)

    def observe(self, root, tree, fault=None):
        """Observable consequence: run the Python-target function of an arithmetic root against a direct
        evaluation of the *requested* tree."""
        fa, ctx = self.fa, self.ctx
        tm = fa.targets.python
        if True:
            names = []
            self.free_symbols(tree, names)
            if not names:
                return None
            args = [ctx.symbol(n, "float").reference(ref_name=n) for n in names]
            fname = ctx.symbol("f_%d" % len(self.vals)).reference(ref_name="f_%d" % len(self.vals))

            def fn():
                g = ctx.apply(fname, args, root)
                return g, g.tostring(tm)

            g, text = self.with_fault(fault, fn) if fault else fn()
            d = {}
            exec(compile(text, "<generated>", "exec"), {"math": __import__("math"), "sys": sys}, d)
            func = d["f_%d" % len(self.vals)]
            rng = stream(self.case.get("inputs_seed", 0), "inputs")
            specials = [0.0, -0.0, 1.0, -1.0, 0.5, 3.0, 1e300, -1e300, 5e-324, float("inf"), -float("inf")]
            bad = None
            n_eval = 0
            for _ in range(24):
                env = {n: rng.choice(specials) for n in names}
                try:
                    exp = self.eval_tree(tree, env)
                    got = func(*[env[n] for n in names])
                except (OverflowError, ZeroDivisionError, TypeError, ValueError):
                    continue
                n_eval += 1
                if canon_value(float(exp) if isinstance(exp, int) else exp) != canon_value(float(got) if isinstance(got, int) else got):
                    if not (exp != exp and got != got):
                        bad = (env, exp, got)
                        break
            self.bump(self.stats, "observable_evaluations", n_eval)
            self.bump(self.probes, "observable_consequence_checked")
            if bad is not None:
                env, exp, got = bad
                zero = is_zero_value(exp) and is_zero_value(got)
                self.violation("observable", "python|" + ("signed-zero" if zero else "value"), inputs=env,
                               expected=repr(exp), generated_returns=repr(got), text=text[-600:])
            return None

    def plain_print(self, root, tm, fault):
        # any other print: wraps the root and prints it (mutates props: ref names); no value oracle here
        ctx = self.ctx
        names = ["x", "y", "z"]
        args = [ctx.symbol(n, "float").reference(ref_name=n) for n in names]
        fname = ctx.symbol("g").reference(ref_name="g")

        def fn2():
            g = ctx.apply(fname, args, root)
            return g.tostring(tm)

        self.with_fault(fault, fn2) if fault else fn2()
        self.bump(self.stats, "completed:print")
        return None

    # ---- end of history: every object ever registered obeys the bijection
    def final_scan(self):
        seen = set()
        for obj in self.keep:
            if id(obj) in seen:
                continue
            seen.add(id(obj))
        tables = []
        ctxs = [self.ctx] + [b["ctx"] for b in self.bundles if b is not None and b["ctx"] is not self.ctx]
        for c in [x for c0 in ctxs for x in (c0, getattr(c0, "_alt", None))]:
            if c is not None and isinstance(getattr(c, "_expressions", None), dict):
                tables.append(c._expressions)
        fps = {}
        n = 0
        intkeys = {}
        for tab in tables:
            for key, obj in tab.items():
                n += 1
                if obj.kind == "constant" and is_nan_value(obj.operands[0]):
                    continue
                fp = self.fingerprint(obj)
                if fp in fps and fps[fp] is not obj:
                    self.violation("duplicate", "table:" + obj.kind, a=repr(fps[fp]), b=repr(obj))
                fps[fp] = obj
                ik = (id(obj.context), obj.intkey)
                if obj.intkey is None or (ik in intkeys and intkeys[ik] is not obj):
                    self.violation("state", "intkey-not-unique", a=repr(obj), intkey=repr(obj.intkey))
                intkeys[ik] = obj
        self.bump(self.stats, "table_entries_scanned", n)


def run_case(case):
    warnings.simplefilter("ignore")
    sim = Sim(case)
    sim.log.ev("seed", case.get("seed"))
    sim.install_wrapper()
    sim.run_ops(case["ops"])
    if sim.ctx.alt is None:
        # observable consequence for the last few arithmetic roots of the history
        done = set()
        for root in sim.req_roots[::-1]:
            if len(done) >= 3:
                break
            if id(root) in done:
                continue
            done.add(id(root))
            try:
                sim.observe(root, sim.req_tree[id(root)])
            except (AssertionError, TypeError, ValueError, NotImplementedError, KeyError, AttributeError, NameError, SyntaxError) as e:
                sim.bump(sim.stats, "observe_failed:" + type(e).__name__)
    try:
        sim.final_scan()
    except Exception as e:  # private layout changed: the scan is an extra, not the oracle
        sim.bump(sim.stats, "final_scan_unavailable")
        sim.log.ev("final_scan_unavailable", type(e).__name__)
    completed = sum(v for k, v in sim.stats.items() if k.startswith("completed:"))
    if not sim.wrapped:
        sim.bump(sim.stats, "registration_wrapper_unavailable")
    n_ops = sim.stats.get("ops", 0)
    return {
        "case": case,
        "digest": sim.log.digest(),
        "violations": sim.violations,
        "stats": sim.stats,
        "probes": sim.probes,
        "faults": sim.faults,
        "states": sorted(sim.states),
        "steps": sim.steps,
        "case_digest": digest_of(case["ops"])[:16],
        "nontrivial": completed >= 3,
        "sample": {"alt": case.get("alt"), "default_constant_type": case.get("default_constant_type"), "n_ops": len(case["ops"]),
                   "first_ops": case["ops"][:12]},
    }


# ------------------------------------------------------------------ minimisation


def _simplify(case):
    import copy

    ops = case["ops"]
    if any(op[0] == "in" and op[1] == 1 for op in ops):
        c = copy.deepcopy(case)
        c["ops"] = [op[2] if op[0] == "in" else op for op in ops]
        yield c
    for i, op in enumerate(ops):
        if op[0] == "fault":
            c = copy.deepcopy(case)
            c["ops"][i] = op[2]
            yield c
        inner = op[2] if op[0] == "fault" else op
        if inner[0] in ("trace", "call"):
            c = copy.deepcopy(case)
            c["ops"][i : i + 1] = copy.deepcopy(inner[2])
            yield c
    if case.get("alt"):
        c = copy.deepcopy(case)
        c["alt"] = False
        yield c
    if case.get("default_constant_type"):
        c = copy.deepcopy(case)
        c["default_constant_type"] = None
        c["alt"] = False
        yield c


class Engine:
    name = "conssim"
    prop = "C07"
    level = "exploration"
    timeout_s = 20.0
    selftest_n = 200
    rule = (
        "seeded histories of construction requests on one Context (symbols x 18 type spellings, constants from a "
        "pool of ==-equal-but-structurally-different values with every like form, every operation kind through "
        "Context methods / Python operators / Expr(), select, list, item, len, nested trace and ctx.call frames, "
        "library traces with rewrite and printing, verbatim re-requests), with exceptions injected at the k-th line "
        "event inside expr.py/context.py/typesystem.py and the history continuing afterwards; distinct = digest of "
        "the literal op list; non-trivial = at least three constructions completed"
    )
    state_measure = "distinct (kind, tuple of operand kinds / constant value types) shapes of completed constructions"
    components = {
        "real": ["Context", "Expr", "Type", "normalize/make_*", "Context.trace/call/__call__", "Expr.rewrite + rewrite module",
                 "target printers (python, numpy, stablehlo, cpp) and modifier_base expansion"],
        "stub": ["none; Context._register_expression is wrapped at run time by the harness (observer only)"],
    }
    assumptions = [
        "one context is used from one thread; concurrent use of a Context is unsupported by the library and not simulated",
        "two NaN constants with equal payload may or may not be one object (either accepted)",
        "a loud failure (exception) is a failed operation, not silent aliasing",
    ]

    def preload(self):
        import functional_algorithms  # noqa: F401
        import functional_algorithms.targets.cpp  # noqa: F401

        warnings.simplefilter("ignore")

    def tier_cfg(self, tier):
        if tier == "quick":
            return {"episodes": 3000}
        return {"episodes": None, "budget_s": 600.0, "min_episodes": 3000}

    def episode(self, task):
        return run_case(make_case(task["seed"], task.get("tier", "quick")))

    def run_case(self, case):
        return run_case(case)

    def minimise(self, case, fails, budget):
        import copy

        def with_ops(ops):
            c = copy.deepcopy(case)
            c["ops"] = ops
            return c

        ops = dd.ddmin(case["ops"], lambda ops: fails(with_ops(ops)), budget)
        return dd.greedy(_simplify, with_ops(ops), fails, budget)

    def after_batch(self, agg, tier, master):
        c = agg.counters
        return {
            "registrations_checked": c.get("stats.registrations", 0),
            "registrations_hitting_existing_entry": c.get("stats.registrations_hit", 0),
            "completed_constructions": sum(v for k, v in c.items() if k.startswith("stats.completed:")),
        }
