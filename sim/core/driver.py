"""Batch driver shared by all engines.

exit 0  property held on everything explored (KNOWN-FINDING lines possible)
exit 1  VIOLATION property=<id> replay=<path>   (not listed in known_findings.json)
exit 2  harness trouble (never a pass, never a violation)
"""

import fnmatch
import json
import os
import subprocess
import sys
import time

from . import ddmin as dd
from .evidence import VERIF, write_evidence
from .log import canon, digest_of
from .runner import HarnessError, run_batch, run_isolated
from .seeds import derive, master_seed

REPLAYS = os.environ.get("VERIF_REPLAY_DIR") or os.path.join(VERIF, "replays")
KNOWN = os.path.join(VERIF, "known_findings.json")


def assert_repo_import():
    import functional_algorithms

    f = os.path.realpath(functional_algorithms.__file__)
    root = os.path.realpath(os.environ.get("VERIF_REPO", "/repo")) + "/"
    if not f.startswith(root):
        raise HarnessError("functional_algorithms imported from %s, not %s" % (f, root))
    return f


def load_known(prop):
    try:
        doc = json.load(open(KNOWN))
    except FileNotFoundError:
        return []
    return [e for e in doc.get("findings", []) if e.get("property") == prop and e.get("status") == "open"]


class Agg:
    """Sums counters and unions state digests over episode results."""

    def __init__(self):
        self.n = 0
        self.harness_errors = []
        self.counters = {}
        self.states = set()
        self.case_digests = set()
        self.nontrivial_digests = set()
        self.steps = 0
        self.samples = []
        self.violating = []  # (task, result)
        self.unsupported = 0

    def add(self, task, res):
        self.n += 1
        if "harness_error" in res:
            self.harness_errors.append((task, res["harness_error"]))
            return
        for group in ("stats", "faults", "probes"):
            for k, v in (res.get(group) or {}).items():
                kk = group + "." + k
                self.counters[kk] = self.counters.get(kk, 0) + int(v)
        self.states.update(res.get("states") or ())
        self.steps += int(res.get("steps", 0))
        cd = res.get("case_digest")
        if cd:
            self.case_digests.add(cd)
            if res.get("nontrivial"):
                self.nontrivial_digests.add(cd)
        if res.get("sample") is not None and len(self.samples) < 3:
            self.samples.append(res["sample"])
        if res.get("violations"):
            self.violating.append((task, res))

    def group(self, name):
        p = name + "."
        return {k[len(p) :]: v for k, v in sorted(self.counters.items()) if k.startswith(p)}


def vkey(v):
    return (v.get("cls"), v.get("key"))


def _has(res, want):
    if not res or "harness_error" in res:
        return False
    return any(vkey(v) == want for v in res.get("violations") or ())


def minimise(engine, case, want, timeout_s, cap=300):
    budget = dd.Budget(cap)

    def fails(c):
        return _has(run_isolated(engine.run_case, c, timeout_s), want)

    try:
        return engine.minimise(case, fails, budget), budget.used
    except Exception as e:  # minimisation is best effort
        sys.stderr.write("minimise: %r\n" % (e,))
        return case, budget.used


def write_replay(engine, case, violation, digest):
    os.makedirs(REPLAYS, exist_ok=True)
    doc = {
        "property": engine.prop,
        "engine": engine.name,
        "case": case,
        "violation": violation,
        "digest": digest,
    }
    name = "%s-%s-%s.json" % (engine.prop, case.get("seed", "x"), digest_of([case, violation.get("cls")])[:8])
    path = os.path.join(REPLAYS, name)
    with open(path, "w") as f:
        json.dump(doc, f, indent=1, sort_keys=True)
        f.write("\n")
    return path


def replay_in_fresh_process(engine, path, timeout_s=600):
    env = dict(os.environ)
    env["PYTHONHASHSEED"] = "0"
    p = subprocess.run(
        [sys.executable, os.path.join(VERIF, "check.py"), engine.prop, "--replay", path],
        capture_output=True,
        text=True,
        timeout=timeout_s,
        env=env,
        cwd=VERIF,
    )
    return p.returncode, p.stdout, p.stderr


def do_replay(engine, path):
    """Entry for `./check <id> --replay <file>`: exit 1 iff the recorded violation reproduces."""
    engine.preload()
    assert_repo_import()
    doc = json.load(open(path))
    want = vkey(doc["violation"])
    res = run_isolated(engine.run_case, doc["case"], engine.timeout_s * 4)
    if "harness_error" in res:
        print("HARNESS-ERROR replay:", res["harness_error"])
        return 2
    if _has(res, want):
        same = res.get("digest") == doc.get("digest")
        print("replayed: %s key=%s digest_match=%s" % (want[0], want[1], same))
        for v in res["violations"]:
            if vkey(v) == want:
                print("  detail:", canon(v.get("detail"))[:1500])
                break
        print("VIOLATION property=%s replay=%s" % (engine.prop, path))
        return 1
    others = [vkey(v) for v in res.get("violations") or ()]
    print("replay: recorded violation %s did not occur (other violations: %s)" % (want, others))
    return 0 if not others else 1


def run_check(engine, tier, extra_cfg=None):
    t0 = time.time()
    master = master_seed()
    engine.preload()
    srcfile = assert_repo_import()
    cfg = engine.tier_cfg(tier)
    if extra_cfg:
        cfg.update(extra_cfg)
    budget_s = cfg.get("budget_s")
    if tier == "thorough" and os.environ.get("VERIF_BUDGET_S"):
        budget_s = float(os.environ["VERIF_BUDGET_S"])
    n = cfg.get("episodes")
    print("engine=%s property=%s tier=%s VERIF_SEED=%d source=%s" % (engine.name, engine.prop, tier, master, srcfile), flush=True)

    def tasks():
        i = 0
        while n is None or i < n:
            yield {"i": i, "seed": derive(master, engine.name, i), "tier": tier}
            i += 1

    agg = Agg()
    try:
        run_batch(
            engine.episode,
            tasks(),
            timeout_s=engine.timeout_s,
            budget_s=budget_s if tier == "thorough" else None,
            min_tasks=cfg.get("min_episodes", 1),
            on_result=agg.add,
        )
        extra = engine.after_batch(agg, tier, master) or {}
    except HarnessError as e:
        print("HARNESS-ERROR", e)
        return 2
    wall_batch = time.time() - t0

    # ---- violations: group, minimise, replay, classify
    known = load_known(engine.prop)
    groups = {}
    for task, res in agg.violating:
        for v in res["violations"]:
            groups.setdefault(vkey(v), []).append((task, res, v))
    new_violations = []
    known_hits = []
    harness_trouble = list(agg.harness_errors)
    for want, lst in sorted(groups.items(), key=lambda kv: str(kv[0])):
        entry = next((e for e in known if fnmatch.fnmatchcase(str(want[0]), e.get("cls", "")) and fnmatch.fnmatchcase(str(want[1]), e.get("key", ""))), None)
        if entry is not None:
            for i, (e0, c0, ks) in enumerate(known_hits):
                if e0 is entry:
                    known_hits[i] = (e0, c0 + len(lst), ks + [want])
                    break
            else:
                known_hits.append((entry, len(lst), [want]))
            continue
        if len(new_violations) >= getattr(engine, "max_minimised", 5):
            new_violations.append((want, None, len(lst)))
            continue
        task, res, v = min(lst, key=lambda t: (len(canon(t[1].get("case"))), t[0]["i"]))
        case = res["case"]
        mcase, used = minimise(engine, case, want, engine.timeout_s * 2, cap=cfg.get("min_cap", getattr(engine, "min_cap", 300)))
        mres = run_isolated(engine.run_case, mcase, engine.timeout_s * 2)
        if not _has(mres, want):
            mcase, mres = case, run_isolated(engine.run_case, case, engine.timeout_s * 2)
        if not _has(mres, want):
            harness_trouble.append((task, "violation %s did not reproduce in a second run of the same case" % (want,)))
            continue
        mv = next(x for x in mres["violations"] if vkey(x) == want)
        path = write_replay(engine, mcase, mv, mres.get("digest"))
        rc, out, err = replay_in_fresh_process(engine, path)
        if rc != 1:
            harness_trouble.append((task, "replay file %s did not reproduce in a fresh process (rc=%s): %s %s" % (path, rc, out[-500:], err[-500:])))
            continue
        new_violations.append((want, path, len(lst)))
        print("violation class=%s key=%s episodes=%d minimised_with=%d re-executions" % (want[0], want[1], len(lst), used))
        print("  detail:", canon(mv.get("detail"))[:1500])

    # ---- evidence
    wall = time.time() - t0
    ok_runs = agg.n - len(agg.harness_errors)
    cov = {
        "evaluations": agg.n,
        "distinct_nontrivial": len(agg.nontrivial_digests),
        "rule": engine.rule,
        "samples": agg.samples or ["(no sample)"],
        "distinct_cases": len(agg.case_digests),
        "distinct_states": len(agg.states),
        "state_measure": engine.state_measure,
        "simulated_steps": agg.steps,
        "simulated_time_note": "the system has no clock; simulated time is the count of logical steps (API calls / line events / scheduler decisions)",
        "runs_per_hour": int(ok_runs / max(wall_batch, 1e-6) * 3600),
        "seeds": "seed_i = sha256(VERIF_SEED, engine, i)[:8], i in [0, %d)" % agg.n,
        "fault_kinds_fired": agg.group("faults"),
        "reach_probes": agg.group("probes"),
        "stats": agg.group("stats"),
        "components": engine.components,
        "harness_errors": len(harness_trouble),
        "known_findings_hit": [{"key": e["key"], "episodes": c, "classes": [list(k) for k in ks]} for e, c, ks in known_hits],
    }
    cov.update(extra)
    doc = {
        "property_id": engine.prop,
        "tier": tier,
        "seed": master,
        "level": engine.level,
        "coverage": cov,
        "assumptions": engine.assumptions,
        "wall_s": round(wall, 2),
        "violations": len(new_violations),
    }
    try:
        how = write_evidence(doc)
    except Exception as e:
        print("HARNESS-ERROR evidence:", e)
        return 2
    print(
        "episodes=%d ok=%d steps=%d distinct_cases=%d nontrivial=%d states=%d wall=%.1fs evidence=%s"
        % (agg.n, ok_runs, agg.steps, len(agg.case_digests), len(agg.nontrivial_digests), len(agg.states), wall, how)
    )
    print("faults:", canon(agg.group("faults")))
    print("probes:", canon(agg.group("probes")))
    for e, c, ks in known_hits:
        print("KNOWN-FINDING: property=%s %s [key=%s, %d episodes]" % (engine.prop, e.get("what", ""), e["key"], c))
    for want, path, cnt in new_violations:
        if path is not None:
            print("VIOLATION property=%s replay=%s" % (engine.prop, path))
        else:
            print("additional violation class not minimised: %s (%d episodes)" % (want, cnt))
    if new_violations:
        return 1
    if harness_trouble:
        for task, msg in harness_trouble[:5]:
            print("HARNESS-ERROR task=%s: %s" % (task, str(msg)[-1500:]))
        return 2
    if ok_runs == 0:
        print("HARNESS-ERROR no episode completed")
        return 2
    return 0
