"""Determinism self-check: same seeds => same event-log digests

* twice in the same parent (16 workers, then 4, then 1 worker),
* once more in freshly exec'ed interpreters under other PYTHONHASHSEEDs.
Any divergence is exit 2 (harness trouble), never a property verdict.
"""

import json
import os
import subprocess
import sys

from .evidence import VERIF
from .runner import run_batch
from .seeds import derive


def digests(engine, n, workers, master=777, tier="quick"):
    tasks = [{"i": i, "seed": derive(master, engine.name, "selftest", i), "tier": tier} for i in range(n)]
    out = run_batch(engine.episode, tasks, workers=workers, timeout_s=engine.timeout_s)
    res = []
    for t, r in out:
        if "harness_error" in r:
            res.append("ERR:" + r["harness_error"][-200:])
        else:
            res.append(r["digest"] + ":" + str(len(r.get("violations") or ())))
    return res


def child(engine, n):
    engine.preload()
    print("DIGESTS " + json.dumps(digests(engine, n, workers=4)))
    return 0


def run(engine, n=None):
    n = n or getattr(engine, "selftest_n", 200)
    engine.preload()
    a = digests(engine, n, workers=16)
    errs = [d for d in a if d.startswith("ERR")]
    if errs:
        print("HARNESS-ERROR selftest episodes failed:", errs[:3])
        return 2
    ok = True
    for w in (4, 1):
        m = n if w != 1 else max(10, n // 8)
        b = digests(engine, m, workers=w)
        diff = [i for i in range(m) if a[i] != b[i]]
        print("selftest %s: %d seeds, 16 workers vs %d workers: %d differ" % (engine.name, m, w, len(diff)))
        ok &= not diff
    for hs in ("1", "4242"):
        env = dict(os.environ)
        env["PYTHONHASHSEED"] = hs
        p = subprocess.run(
            [sys.executable, os.path.join(VERIF, "check.py"), engine.prop, "--selftest-child", str(n)],
            capture_output=True, text=True, env=env, cwd=VERIF, timeout=3600,
        )
        line = [l for l in p.stdout.splitlines() if l.startswith("DIGESTS ")]
        if not line:
            print("HARNESS-ERROR selftest child failed:", p.stdout[-500:], p.stderr[-1500:])
            return 2
        c = json.loads(line[0][8:])
        diff = [i for i in range(n) if a[i] != c[i]]
        print("selftest %s: %d seeds, fresh interpreter PYTHONHASHSEED=%s: %d differ" % (engine.name, n, hs, len(diff)))
        if diff:
            print("  first differing index", diff[0], a[diff[0]], c[diff[0]])
        ok &= not diff
    print("selftest", "PASS" if ok else "FAIL")
    return 0 if ok else 2
