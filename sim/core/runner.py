"""Episode runner: forked, isolated, time-limited episodes on W workers.

* The parent imports everything an episode needs (``preload``) and then forks
  W long-lived workers.  For every episode a worker ``os.fork()``s a child that
  runs ``episode_fn(task)``, writes one JSON document to a pipe and ``_exit``s,
  so every episode starts from the same process state (the state right after
  import) and module-global state cannot leak from one episode into the next.
* A child that does not answer within ``timeout_s`` is SIGKILLed and reported
  as ``{"harness_error": "timeout"}`` -- never as a pass and never as a
  violation.
* Tasks are handed out dynamically; with ``budget_s`` the producer stops
  handing out new tasks when the wall budget is used (at least ``min_tasks``
  are always run).
"""

import faulthandler
import json
import multiprocessing
import os
import select
import signal
import sys
import time
import traceback


class HarnessError(Exception):
    pass


def _run_child(episode_fn, task, timeout_s):
    r, w = os.pipe()
    pid = os.fork()
    if pid == 0:
        # child
        status = 0
        try:
            os.close(r)
            try:  # the package prints diagnostics (NOTIMPL: ...) to stdout; episodes report through the pipe only
                dn = os.open(os.devnull, os.O_WRONLY)
                sys.stdout.flush()
                os.dup2(dn, 1)
            except Exception:
                pass
            try:
                faulthandler.dump_traceback_later(max(1.0, timeout_s - 1.0), exit=False, file=sys.stderr)
            except Exception:
                pass
            try:
                res = episode_fn(task)
            except BaseException:  # harness trouble, classified apart from violations
                res = {"harness_error": traceback.format_exc()[-4000:]}
            data = json.dumps(res, default=repr).encode()
            off = 0
            while off < len(data):
                off += os.write(w, data[off : off + 65536])
        except BaseException:
            status = 3
        finally:
            os._exit(status)
    os.close(w)
    chunks = []
    deadline = time.monotonic() + timeout_s
    timed_out = False
    while True:
        left = deadline - time.monotonic()
        if left <= 0:
            timed_out = True
            break
        rl, _, _ = select.select([r], [], [], left)
        if not rl:
            timed_out = True
            break
        b = os.read(r, 1 << 20)
        if not b:
            break
        chunks.append(b)
    os.close(r)
    if timed_out:
        try:
            os.kill(pid, signal.SIGKILL)
        except ProcessLookupError:
            pass
    _, st = os.waitpid(pid, 0)
    if timed_out:
        return {"harness_error": "timeout after %.0fs" % timeout_s}
    raw = b"".join(chunks)
    if not raw:
        return {"harness_error": "child died with wait status %d and no output" % st}
    try:
        return json.loads(raw)
    except ValueError:
        return {"harness_error": "unparsable child output (%d bytes), status %d" % (len(raw), st)}


def run_isolated(episode_fn, task, timeout_s=60.0):
    """Run one episode in a forked child of the calling process."""
    return _run_child(episode_fn, task, timeout_s)


def _worker(episode_fn, timeout_s, tq, rq):
    signal.signal(signal.SIGINT, signal.SIG_IGN)
    while True:
        item = tq.get()
        if item is None:
            break
        idx, task = item
        try:
            res = _run_child(episode_fn, task, timeout_s)
        except BaseException:
            res = {"harness_error": "worker: " + traceback.format_exc()[-2000:]}
        rq.put((idx, res))


def run_batch(episode_fn, tasks, workers=None, timeout_s=60.0, budget_s=None, min_tasks=1, on_result=None, max_errors=8):
    """Run episode_fn over tasks (an iterable; may be infinite when budget_s is given).

    Returns a list of (task, result) in task order.
    """
    workers = workers or int(os.environ.get("VERIF_WORKERS", "0")) or os.cpu_count() or 1
    ctx = multiprocessing.get_context("fork")
    tq = ctx.Queue()
    rq = ctx.Queue()
    procs = [ctx.Process(target=_worker, args=(episode_fn, timeout_s, tq, rq), daemon=True) for _ in range(workers)]
    for p in procs:
        p.start()
    t0 = time.monotonic()
    it = iter(tasks)
    issued = {}
    results = {}
    exhausted = False
    n_issued = 0

    n_err = 0

    def feed():
        nonlocal exhausted, n_issued
        if n_err >= max_errors:  # e.g. every episode hangs: stop early, the batch is harness trouble anyway
            exhausted = True
        while not exhausted and len(issued) - len(results) < 2 * workers:
            if budget_s is not None and n_issued >= min_tasks and time.monotonic() - t0 > budget_s:
                exhausted = True
                break
            try:
                task = next(it)
            except StopIteration:
                exhausted = True
                break
            issued[n_issued] = task
            tq.put((n_issued, task))
            n_issued += 1

    try:
        feed()
        last_progress = time.monotonic()
        while len(results) < len(issued):
            try:
                idx, res = rq.get(timeout=1.0)
            except Exception:
                if not all(p.is_alive() for p in procs):
                    raise HarnessError("a worker process died")
                if time.monotonic() - last_progress > timeout_s * 3 + 30:
                    raise HarnessError("no progress from workers")
                continue
            last_progress = time.monotonic()
            results[idx] = res
            if "harness_error" in res:
                n_err += 1
            if on_result is not None:
                on_result(issued[idx], res)
            feed()
    finally:
        for _ in procs:
            try:
                tq.put(None)
            except Exception:
                pass
        for p in procs:
            p.join(timeout=5)
            if p.is_alive():
                p.kill()
    return [(issued[i], results[i]) for i in sorted(results)]
