"""Evidence writer: validates against /root/.vp/EVIDENCE.schema.json before writing."""

import json
import os
import shutil
import subprocess

VERIF = os.path.dirname(os.path.dirname(os.path.dirname(os.path.abspath(__file__))))
SCHEMA = "/root/.vp/EVIDENCE.schema.json"

_VALIDATE = r"""
import json, sys, jsonschema
schema = json.load(open(sys.argv[1])); doc = json.load(open(sys.argv[2]))
jsonschema.Draft202012Validator(schema).validate(doc)
"""


def _minimal_validate(doc):
    for k in ("property_id", "tier", "seed", "level", "coverage", "wall_s"):
        if k not in doc:
            raise ValueError("evidence lacks " + k)
    cov = doc["coverage"]
    if doc["level"] in ("exploration", "fault_enumeration"):
        assert isinstance(cov.get("evaluations"), int) and cov["evaluations"] >= 1
        assert isinstance(cov.get("distinct_nontrivial"), int) and cov["distinct_nontrivial"] >= 2
        assert isinstance(cov.get("rule"), str)
        assert isinstance(cov.get("samples"), list) and cov["samples"]


def write_evidence(doc, path=None):
    path = path or os.path.join(os.environ.get("VERIF_EVIDENCE_DIR") or os.path.join(VERIF, "evidence"), doc["property_id"] + ".json")
    os.makedirs(os.path.dirname(path), exist_ok=True)
    tmp = path + ".tmp"
    with open(tmp, "w") as f:
        json.dump(doc, f, indent=1, sort_keys=True, default=repr)
        f.write("\n")
    how = "minimal"
    vt = shutil.which("python3-vt")
    if vt and os.path.exists(SCHEMA):
        p = subprocess.run([vt, "-c", _VALIDATE, SCHEMA, tmp], capture_output=True, text=True, timeout=120)
        if p.returncode != 0:
            if "No module named" in p.stderr:
                _minimal_validate(doc)
            else:
                os.unlink(tmp)
                raise ValueError("evidence does not validate: " + p.stderr[-2000:])
        else:
            how = "jsonschema"
    else:
        _minimal_validate(doc)
    os.replace(tmp, path)
    return how
