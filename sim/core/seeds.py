"""Seed derivation: one integer decides everything.

`derive(master, *labels)` is the first 8 bytes of SHA-256 over the canonical
text of (master, labels).  `stream(seed, label)` is an independent
`random.Random` for that label.  Nothing here reads a clock, the environment
or `hash()`.
"""

import hashlib
import os
import random


def derive(master, *labels):
    h = hashlib.sha256()
    h.update(repr(int(master)).encode())
    for lab in labels:
        h.update(b"\x00")
        h.update(str(lab).encode())
    return int.from_bytes(h.digest()[:8], "big")


def stream(seed, label):
    return random.Random(derive(seed, label))


def master_seed():
    v = os.environ.get("VERIF_SEED", "0").strip() or "0"
    try:
        return int(v, 0)
    except ValueError:
        return derive(0, v)
