"""Delta debugging over a list, with a re-execution cap."""


class Budget:
    def __init__(self, n):
        self.left = n
        self.used = 0

    def take(self):
        if self.left <= 0:
            return False
        self.left -= 1
        self.used += 1
        return True


def ddmin(items, fails, budget):
    """Return a (locally) minimal sublist of items for which fails(sublist) is true.

    fails(items) is assumed true.  `budget.take()` is called before each test.
    """
    items = list(items)
    n = 2
    while len(items) >= 2:
        chunk = max(1, len(items) // n)
        subsets = [items[i : i + chunk] for i in range(0, len(items), chunk)]
        reduced = False
        # try complements first (removing one chunk): usually what works for op lists
        for i in range(len(subsets)):
            comp = [x for j, s in enumerate(subsets) if j != i for x in s]
            if not comp:
                continue
            if not budget.take():
                return items
            if fails(comp):
                items = comp
                n = max(n - 1, 2)
                reduced = True
                break
        if not reduced:
            for s in subsets:
                if len(s) == len(items):
                    continue
                if not budget.take():
                    return items
                if fails(s):
                    items = s
                    n = 2
                    reduced = True
                    break
        if not reduced:
            if n >= len(items):
                break
            n = min(len(items), n * 2)
    if len(items) == 1 and budget.take() and fails([]):
        return []
    return items


def greedy(candidates_of, start, fails, budget):
    """Repeatedly replace `cur` by the first failing candidate of candidates_of(cur)."""
    cur = start
    progress = True
    while progress:
        progress = False
        for cand in candidates_of(cur):
            if not budget.take():
                return cur
            if fails(cand):
                cur = cand
                progress = True
                break
    return cur
