"""Event log with a global sequence number and a canonical digest.

Logging never draws from a PRNG stream and never reads a clock.
"""

import hashlib
import json


def canon(obj):
    return json.dumps(obj, sort_keys=True, separators=(",", ":"), default=_default)


def _default(o):
    if isinstance(o, (set, frozenset)):
        return sorted(map(str, o))
    if isinstance(o, bytes):
        return o.hex()
    if isinstance(o, tuple):
        return list(o)
    return repr(o)


class EventLog:
    __slots__ = ("events", "seq", "keep", "_h")

    def __init__(self, keep=True):
        self.events = []
        self.seq = 0
        self.keep = keep
        self._h = hashlib.sha256()

    def ev(self, kind, *data):
        self.seq += 1
        rec = [self.seq, kind, *data]
        self._h.update(canon(rec).encode())
        self._h.update(b"\n")
        if self.keep:
            self.events.append(rec)

    def digest(self):
        return self._h.hexdigest()


def digest_of(obj):
    return hashlib.sha256(canon(obj).encode()).hexdigest()
