"""C05 oracle: the Python, NumPy and C++ texts, whatever the history of the context they came from,
(1) obey the binding discipline, (2) load / compile, (3) compute the graph bit-for-bit on seeded
inputs, (4) never share a variable between sub-expressions that are not tree-equivalent."""

import ctypes
import math
import os
import shutil
import subprocess
import sys
import tempfile
import textwrap
import warnings

from ..core.log import EventLog, digest_of
from ..core.runner import HarnessError
from ..core.seeds import stream
from . import cppparse, history as H, interp as I, pyscan
from .engine import GenEngineBase
from .universe import req_key

EXEC_TARGETS = ("python", "numpy", "cpp")


def tree_equivalent(a, b, Expr, memo=None):
    if a is b:
        return True
    if memo is None:
        memo = {}
    k = (id(a), id(b))
    if k in memo:
        return memo[k]
    memo[k] = True  # assume (DAGs have no cycles; this is only a memo guard)
    r = _teq(a, b, Expr, memo)
    memo[k] = r
    return r


def _teq(a, b, Expr, memo):
    if a.kind != b.kind or len(a.operands) != len(b.operands):
        return False
    if a.kind == "symbol":
        return False  # distinct symbol objects
    if a.kind == "constant":
        va, vb = a.operands[0], b.operands[0]
        if isinstance(va, Expr) != isinstance(vb, Expr):
            return False
        if isinstance(va, Expr):
            if not tree_equivalent_any(va, vb, Expr, memo):
                return False
        else:
            if denotation(va) != denotation(vb):
                return False
        try:
            return str(a.operands[1].get_type()) == str(b.operands[1].get_type())
        except Exception:
            return False
    for x, y in zip(a.operands, b.operands):
        if isinstance(x, Expr) and isinstance(y, Expr):
            if not tree_equivalent(x, y, Expr, memo):
                return False
        elif x is not y and x != y:
            return False
    return True


def denotation(v):
    """What a constant's value denotes once it is attached to an operand of a given type (the printers take
    the type from the like operand, not from the Python type of the value): a named infinity and a literal
    one, 1 and 1.0, numpy.float64(inf) and inf are the same; numpy.float32(0.1) and 0.1 are not."""
    import numpy

    if isinstance(v, str):
        v = {"posinf": float("inf"), "neginf": -float("inf")}.get(v, v)
        if isinstance(v, str):
            return ("name", v)
    if isinstance(v, (bool, numpy.bool_)):
        return ("bool", bool(v))
    if isinstance(v, (int, numpy.integer)):
        return ("num", int(v), 0) if abs(int(v)) > 2**53 else ("num", I.bits64(float(v)), I.bits64(0.0))
    if isinstance(v, (float, numpy.floating)):
        f = float(v)
        return ("num", "nan" if f != f else I.bits64(f), I.bits64(0.0))
    if isinstance(v, (complex, numpy.complexfloating)):
        c = complex(v)
        return ("num", "nan" if c.real != c.real else I.bits64(c.real), "nan" if c.imag != c.imag else I.bits64(c.imag))
    return ("other", repr(v))


def tree_equivalent_any(a, b, Expr, memo):
    """For alternative-context values: symbols are equivalent when they have the same name and type."""
    if a is b:
        return True
    if a.kind != b.kind or len(a.operands) != len(b.operands):
        return False
    if a.kind == "symbol":
        return a.operands[0] == b.operands[0] and str(a.operands[1]) == str(b.operands[1])
    if a.kind == "constant":
        va, vb = a.operands[0], b.operands[0]
        if isinstance(va, Expr) or isinstance(vb, Expr):
            return isinstance(va, Expr) and isinstance(vb, Expr) and tree_equivalent_any(va, vb, Expr, memo)
        return type(va) is type(vb) and I.canon_result(va) == I.canon_result(vb)
    return all(tree_equivalent_any(x, y, Expr, memo) if isinstance(x, Expr) else x == y for x, y in zip(a.operands, b.operands))


def refs_of_graph(g, Expr):
    """name -> list of expressions of the printed graph whose registered reference is that name."""
    out = {}
    for e in I.walk(g, Expr):
        r = e.props.get("ref")
        if not isinstance(r, str) and e.kind not in ("symbol", "apply") and not isinstance(e.props.get("reference_name"), str):
            # auto-generated names (of constants and of anonymous operations) are computed on demand and
            # never stored or registered
            try:
                r = e.ref
            except Exception:
                r = None
        if isinstance(r, str):
            out.setdefault(r, []).append(e)
    return out


def sharing_violations(g, Expr, names):
    bad = []
    refs = refs_of_graph(g, Expr)
    memo = {}
    for name in names:
        es = refs.get(name, [])
        for i in range(1, len(es)):
            if not tree_equivalent(es[0], es[i], Expr, memo):
                bad.append((name, es[0].kind, es[i].kind))
                break
    return bad


class _UpcastNumpy:
    """A numpy-like namespace (legal value of as_function's `numpy=` parameter) in which the single precision
    types are the double precision ones."""

    def __getattr__(self, name):
        import numpy

        return {"float32": numpy.float64, "complex64": numpy.complex128}.get(name, getattr(numpy, name))


class Oracle:
    def __init__(self, case, Expr, fa):
        self.case = case
        self.Expr = Expr
        self.fa = fa
        self.violations = []
        self.stats = {}
        self.probes = {}
        self.is_baseline = False
        self.baseline = {}
        self.loaded = []
        self.cpp_items = []
        self.states = set()
        self.nsamples = case.get("nsamples", 40)
        self.rng = stream(case.get("seed", 0), "inputs")

    def bump(self, d, k, n=1):
        d[k] = d.get(k, 0) + n

    def run_baseline(self, req, rec):
        o2 = type(self)(self.case, self.Expr, self.fa)
        o2.is_baseline = True
        ex = H.Executor(EventLog(keep=False), o2.on_text, {}, {}, {})
        ex.run(H.solo_history(req, rec))
        o2.finish_cpp()
        return set("%s|%s" % (v["cls"], v["key"]) for v in o2.violations)

    def violation(self, cls, key, rec, **detail):
        key = key + "|" + rec["key"].split(":")[1]  # the function: a finding about one program never hides another's
        detail.update(request=rec["key"], position=rec["pos"], prior_on_context=rec["prior"][-4:], env=rec["env"], rep=rec["rep"])
        if not any(v["cls"] == cls and v["key"] == key for v in self.violations):
            self.violations.append({"cls": cls, "key": key, "detail": detail})

    # ---- inputs
    def boundary_values(self, g):
        """Finite numeric constants of the graph, their negations and float neighbours: comparisons in the
        algorithms are against such thresholds, so equality cases need them as inputs."""
        import math

        out = []
        free = {}  # id(expr) -> depends on a symbol
        it = I.NpInterp(self.Expr)
        it.env = {}
        vals = {}
        for e in I.walk(g, self.Expr):
            if e.kind == "symbol":
                free[id(e)] = True
                continue
            dep = any(free.get(id(o), False) for o in e.operands if isinstance(o, self.Expr) and not (e.kind == "constant" and o is e.operands[0]))
            free[id(e)] = dep
            if dep or e.kind in ("apply", "list"):
                continue
            try:
                import numpy

                with numpy.errstate(all="ignore"):
                    vals[id(e)] = it.node(e, lambda o: vals[id(o)])
                v = vals[id(e)]
                if getattr(v, "dtype", None) is not None and v.dtype.kind == "f":
                    v = float(v)
                    if v == v and abs(v) != math.inf:
                        out += [v, -v, math.nextafter(v, math.inf), math.nextafter(v, -math.inf)]
            except Exception:
                continue
        return out[:400]

    def sample_args(self, params, boundary=()):
        import numpy

        def dbl():
            if boundary and self.rng.random() < 0.25:
                return self.rng.choice(boundary)
            return I.random_double(self.rng)

        def flt():
            if boundary and self.rng.random() < 0.25:
                with numpy.errstate(all="ignore"):
                    return float(numpy.float32(self.rng.choice(boundary)))
            return I.random_float32(self.rng)

        args = []
        for p in params:
            if p.kind == "list":
                args.append([self.sample_args([item], boundary)[0] for item in p.operands])
                continue
            t = str(p.operands[1])
            if t in ("float", "float64"):
                args.append(dbl())
            elif t == "float32":
                args.append(flt())
            elif t in ("complex", "complex128"):
                args.append(complex(dbl(), dbl()))
            elif t == "complex64":
                args.append(complex(flt(), flt()))
            else:
                raise I.Uninterpretable("parameter type " + t)
        return args

    # ---- entry
    def on_text(self, rec, text, req):
        t = rec["target"]
        if t not in EXEC_TARGETS:
            return
        g = req["g"]
        if (req["func"].startswith("gen:") or req.get("topdown")) and not self.is_baseline:
            # generated programs, and requests rewritten top-down (deep_first=False), are judged differentially:
            # flagged only if the same request with the same pipeline, made alone on a fresh context without
            # faults, passes the same oracle (program-dimension defects are not claimed)
            if rec["key"] not in self.baseline:
                self.baseline[rec["key"]] = self.run_baseline(req, rec)
            if self.baseline[rec["key"]]:
                self.bump(self.stats, "generated_program_fails_alone")
                self.bump(self.stats, "fails_alone:" + sorted(self.baseline[rec["key"]])[0][:60])
                return
            self.bump(self.stats, "generated_program_texts_checked")
        self.bump(self.stats, "texts:" + t)
        if rec["prior"]:
            self.bump(self.probes, "text_from_context_with_history")
        if rec["env"]:
            self.bump(self.probes, "text_under_env_fault:" + rec["env"])
        self.states.add(digest_of([rec["key"], rec["prior"], rec["env"]])[:12])
        try:
            if t == "python":
                self.check_python(rec, text, g)
            elif t == "numpy":
                self.check_numpy(rec, text, g)
            else:
                self.check_cpp_text(rec, text, g)
        except I.Uninterpretable as e:
            self.bump(self.stats, "uninterpretable:" + t)

    # ---- python
    def check_python(self, rec, text, g):
        text = textwrap.dedent(text)  # a text printed with tab="    " is meant to be embedded at that indentation
        try:
            errs, assigned, fname = pyscan.binding_errors(text)
        except SyntaxError as e:
            self.violation("load", "python|SyntaxError", rec, error=str(e), text=text[-400:])
            return
        for kind, name in errs:
            self.violation("binding", "python|" + kind, rec, name=name, text=text[-600:])
        self.check_sharing(rec, g, "python", assigned + [p.props.get("ref") for p in g.operands[1:-1]])
        ns = {}
        try:
            exec(compile(self.fa.targets.python.source_file_header + "\n" + text, "<generated python>", "exec"), ns)
            func = ns[fname]
        except Exception as e:
            self.violation("load", "python|" + type(e).__name__, rec, error=str(e)[:300], text=text[-400:])
            return
        it = I.PyInterp(self.Expr)
        body = g.operands[-1]
        params = g.operands[1:-1]
        bnd = self.boundary_values(g)
        for _ in range(self.nsamples):
            args = self.sample_args(params, bnd)
            it.bind(g, args)
            exp_exc = None
            try:
                exp = it.lazy(body, None)
            except I.Tainted:
                self.bump(self.stats, "tainted_samples")
                continue
            except it.ERRORS as e:
                exp_exc = e
            try:
                got = func(*args)
                got_exc = None
            except it.ERRORS as e:
                got_exc = e
            except Exception as e:
                self.violation("execute", "python|unexpected-exception:" + type(e).__name__, rec, args=repr(args), error=str(e)[:200])
                return
            self.bump(self.stats, "samples:python")
            if got_exc is not None:
                self.bump(self.stats, "samples_raising:python")
                if exp_exc is None:
                    er = it.eager_raises(body, None)
                    if er is None:
                        self.bump(self.stats, "tainted_samples")
                        continue
                    if not er:
                        self.violation("value", "python|exception-where-graph-evaluates", rec, args=repr(args),
                                       error=repr(got_exc), expected=repr(exp))
                        return
            else:
                if exp_exc is not None:
                    self.violation("value", "python|value-where-graph-raises", rec, args=repr(args), got=repr(got), expected=repr(exp_exc))
                    return
                if I.canon_result(got) != I.canon_result(exp):
                    self.violation("value", "python|value", rec, args=repr(args), got=repr(got), expected=repr(exp))
                    return
        if ":as=" not in rec["key"]:
            self.load_through_package(rec, g, "python")

    # ---- numpy
    def check_numpy(self, rec, text, g):
        import numpy

        text = textwrap.dedent(text)
        try:
            errs, assigned, fname = pyscan.binding_errors(text)
        except SyntaxError as e:
            self.violation("load", "numpy|SyntaxError", rec, error=str(e), text=text[-400:])
            return
        for kind, name in errs:
            self.violation("binding", "numpy|" + kind, rec, name=name, text=text[-600:])
        self.check_sharing(rec, g, "numpy", assigned + [p.props.get("ref") for p in g.operands[1:-1]])
        ns = {}
        try:
            exec(compile(self.fa.targets.numpy.source_file_header + "\n" + text, "<generated numpy>", "exec"), ns)
            func = ns[fname]
        except Exception as e:
            self.violation("load", "numpy|" + type(e).__name__, rec, error=str(e)[:300], text=text[-400:])
            return
        it = I.NpInterp(self.Expr)
        body = g.operands[-1]
        params = g.operands[1:-1]
        bnd = self.boundary_values(g)
        for _ in range(self.nsamples):
            args = self.sample_args(params, bnd)
            it.bind(g, args)
            try:
                exp = it.evaluate(body)
            except I.Tainted:
                self.bump(self.stats, "tainted_samples")
                continue
            try:
                with warnings.catch_warnings():
                    warnings.simplefilter("ignore")
                    got = func(*[it.env[id(p)] for p in params])
            except Exception as e:
                self.violation("execute", "numpy|exception:" + type(e).__name__, rec, args=repr(args), error=str(e)[:300],
                               debug=rec["debug"])
                return
            self.bump(self.stats, "samples:numpy")
            if I.canon_result(got) != I.canon_result(exp):
                self.violation("value", "numpy|value", rec, args=repr(args), got=repr(got), expected=repr(exp),
                               got_dtype=str(getattr(got, "dtype", type(got))), expected_dtype=str(getattr(exp, "dtype", type(exp))))
                return
        if ":as=" not in rec["key"] and not any(p.kind == "list" for p in params):
            self.load_through_package(rec, g, "numpy")

    # ---- the package's own loader, and functions that stay loaded while the history goes on
    def load_through_package(self, rec, g, target):
        """targets.<t>.as_function is how users (and the package's tests) turn a graph into a callable; functions
        loaded earlier must keep computing their graph whatever is loaded afterwards -- also when a later load
        passes another numpy-like namespace through the documented `numpy=` parameter."""
        fa = self.fa
        if self.is_baseline or self.rng.random() > 0.4 or (rec.get("params_pseudo") or False):
            return
        try:
            if target == "numpy":
                f = fa.targets.numpy.as_function(g, debug=min(rec["debug"], 1))
                if self.rng.random() < 0.5:
                    fa.targets.numpy.as_function(g, debug=0, numpy=_UpcastNumpy())  # discarded: only its side effects matter
                    self.bump(self.probes, "loaded_with_another_numpy_namespace")
            else:
                f = fa.targets.python.as_function(g)
        except Exception as e:
            self.bump(self.stats, "package_loader_failed:" + type(e).__name__)
            return
        self.loaded.append((f, g, rec, target))
        self.loaded = self.loaded[-6:]
        self.bump(self.stats, "loaded_through_package_loader")
        self.recheck_loaded()

    def recheck_loaded(self):
        for f, g, rec, target in self.loaded:
            it = I.NpInterp(self.Expr) if target == "numpy" else I.PyInterp(self.Expr)
            body, params = g.operands[-1], g.operands[1:-1]
            for _ in range(4):
                try:
                    args = self.sample_args(params)
                    it.bind(g, args)
                    if target == "numpy":
                        exp = it.evaluate(body)
                        with warnings.catch_warnings():
                            warnings.simplefilter("ignore")
                            got = f(*[it.env[id(p)] for p in params])
                    else:
                        exp = it.lazy(body, None)
                        got = f(*args)
                except (I.Tainted, I.Uninterpretable) + I.PyInterp.ERRORS:
                    continue
                except Exception as e:
                    self.violation("execute", "%s|loaded-function-exception:%s" % (target, type(e).__name__), rec, error=str(e)[:200])
                    break
                self.bump(self.stats, "samples:reloaded")
                if I.canon_result(got) != I.canon_result(exp):
                    self.violation("value", target + "|loaded-function-changed-behaviour", rec, args=repr(args), got=repr(got),
                                   expected=repr(exp), got_dtype=str(getattr(got, "dtype", type(got))))
                    break

    # ---- name sharing (clause 4)
    def check_sharing(self, rec, g, target, names):
        names = [n for n in names if isinstance(n, str)]
        for name, k1, k2 in sharing_violations(g, self.Expr, names):
            self.violation("name-shared", "%s|%s/%s" % (target, k1, k2), rec, name=name)
        self.bump(self.stats, "names_checked_for_sharing", len(names))

    # ---- cpp: scan now, compile + execute once per episode
    def check_cpp_text(self, rec, text, g):
        try:
            fn = cppparse.parse_function(text)
        except cppparse.CppParseError as e:
            self.violation("load", "cpp|unparsable", rec, error=str(e), text=text[-400:])
            return
        for kind, name in cppparse.binding_errors(fn):
            self.violation("binding", "cpp|" + kind, rec, name=name, text=text[-600:])
        self.check_sharing(rec, g, "cpp", [n for _, n, _ in fn["stmts"]] + [n for _, n in fn["params"]])
        self.cpp_items.append((rec, text, g, fn))

    def finish_cpp(self):
        if not self.cpp_items:
            return
        gxx = shutil.which("g++")
        if gxx is None:
            self.bump(self.stats, "cpp_compiler_unavailable")
            return
        header = self.fa.targets.cpp.source_file_header
        d = tempfile.mkdtemp(prefix="fa-c05-", dir="/tmp")
        try:
            parts = [header, '#include <complex>\nextern "C" {\n}\n']
            runnable = []
            for i, (rec, text, g, fn) in enumerate(self.cpp_items):
                parts.append("namespace ns%d {\n%s\n}\n" % (i, text))
                ptypes = [t for t, _ in fn["params"]]
                ok = fn["rtype"] in ("double", "std::complex<double>") and all(t in ("double", "std::complex<double>") for t in ptypes)
                if ok:
                    args = []
                    k = 0
                    for t in ptypes:
                        if t == "double":
                            args.append("in[%d]" % k)
                            k += 1
                        else:
                            args.append("std::complex<double>(in[%d], in[%d])" % (k, k + 1))
                            k += 2
                    call = "ns%d::%s(%s)" % (i, fn["name"], ", ".join(args))
                    if fn["rtype"] == "double":
                        body = "double r = %s; out[0] = r; out[1] = 0;" % call
                    else:
                        body = "std::complex<double> r = %s; out[0] = r.real(); out[1] = r.imag();" % call
                    parts.append('extern "C" void run%d(const double* in, double* out) { %s }\n' % (i, body))
                    runnable.append((i, k))
            src = os.path.join(d, "ep.cpp")
            so = os.path.join(d, "ep.so")
            with open(src, "w") as f:
                f.write("\n".join(parts))
            cmd = [gxx, "-shared", "-fPIC", "-O0", "-fno-builtin", "-ffp-contract=off", "-w", "-o", so, src]
            p = subprocess.run(cmd, capture_output=True, text=True, timeout=280)
            self.bump(self.stats, "cpp_translation_units")
            if p.returncode != 0:
                # find the culprit(s) one by one
                for i, (rec, text, g, fn) in enumerate(self.cpp_items):
                    one = os.path.join(d, "one%d.cpp" % i)
                    with open(one, "w") as f:
                        f.write(header + "\n" + text + "\n")
                    q = subprocess.run([gxx, "-fsyntax-only", "-w", one], capture_output=True, text=True, timeout=120)
                    if q.returncode != 0:
                        err = [l for l in q.stderr.splitlines() if "error" in l][:2]
                        self.violation("load", "cpp|compile-error", rec, error=err, text=text[-500:])
                if not any(v["cls"] == "load" for v in self.violations):
                    raise HarnessError("batched C++ translation unit failed but every function compiles alone: " + p.stderr[-800:])
                return
            self.bump(self.stats, "cpp_functions_compiled", len(self.cpp_items))
            lib = ctypes.CDLL(so)
            it = I.CInterp(self.Expr)
            for i, nin in runnable:
                rec, text, g, fn = self.cpp_items[i]
                run = getattr(lib, "run%d" % i)
                run.argtypes = [ctypes.POINTER(ctypes.c_double), ctypes.POINTER(ctypes.c_double)]
                run.restype = None
                body = g.operands[-1]
                params = g.operands[1:-1]
                bnd = self.boundary_values(g)
                try:
                    for _ in range(self.nsamples):
                        args = self.sample_args(params, bnd)
                        it.bind(g, args)
                        try:
                            exp = it.lazy(body)
                        except I.Tainted:
                            self.bump(self.stats, "tainted_samples")
                            continue
                        flat = []
                        for a in args:
                            flat += [a.real, a.imag] if isinstance(a, complex) else [a]
                        inb = (ctypes.c_double * len(flat))(*flat)
                        outb = (ctypes.c_double * 2)()
                        run(inb, outb)
                        got = complex(outb[0], outb[1]) if fn["rtype"] != "double" else outb[0]
                        self.bump(self.stats, "samples:cpp")
                        if I.canon_result(got) != I.canon_result(exp if not isinstance(exp, bool) else float(exp)):
                            self.violation("value", "cpp|value", rec, args=repr(args), got=repr(got), expected=repr(exp))
                            break
                    self.bump(self.stats, "cpp_functions_executed")
                except I.Uninterpretable:
                    self.bump(self.stats, "uninterpretable:cpp")
        finally:
            shutil.rmtree(d, ignore_errors=True)


class C05Engine(GenEngineBase):
    name = "gensim-c05"
    prop = "C05"
    timeout_s = 400.0
    min_cap = 120
    max_minimised = 3
    rule = (
        "seeded histories of generation requests for the python, numpy (debug 0/1) and cpp targets (shipped "
        "trace_arguments plus naming-stress programs; stablehlo requests as background), steps interleaved, on fresh "
        "and shared contexts (one context used for several functions, signatures and targets), with aborted requests, "
        "exceptions injected at line granularity and formatter faults (clang-format absent / failing / killed, "
        "unwritable TMPDIR, black unimportable); every emitted text is scanned for the binding discipline, loaded / "
        "compiled, executed on seeded inputs against an independent interpreter of the graph, and checked for "
        "variable sharing between non-equivalent sub-expressions; distinct = (request, prior requests on its "
        "context, fault environment) triples; non-trivial = at least three texts checked, one of them from a context "
        "with history"
    )
    state_measure = "distinct (request key, list of requests traced earlier on the same context, formatter fault) triples"
    components = {
        "real": ["functional_algorithms tracing, rewriting and printing", "CPython exec of emitted Python/NumPy text", "g++ and glibc libm for emitted C++",
                 "real black / clang-format except under injected formatter faults"],
        "stub": ["clang-format replaced by a failing fake on PATH under F3 faults", "black hidden from import under F4"],
    }
    assumptions = [
        "scope: histories x faults x (shipped + naming-stress programs) x seeded inputs; seeded generated programs draw on ~30 operation kinds and are judged against the same request made alone; programs over every kind are not explored",
        "C++ float / complex<float> texts are compiled, not executed; complex-operand arithmetic in C++ is uninterpretable",
        "samples where a kind's meaning is ambiguous (NaN or two zeros into maximum/minimum, sign of 0/NaN) are skipped",
    ]

    def preload(self):
        self.preload_common()
        import numpy  # noqa: F401

    def tier_cfg(self, tier):
        if tier == "quick":
            return {"episodes": 320}
        return {"episodes": None, "budget_s": 900.0, "min_episodes": 320}

    def make_case(self, seed, tier="quick"):
        kn = stream(seed, "interp")
        faulty = kn.random() < 0.4
        cfg = dict(targets=["python", "numpy", "cpp", "stablehlo"], n_requests=24 if tier == "quick" else 40, allow_faults=True,
                   shared=True, debug_levels={"numpy": [0, 1, 1, 2], "python": [0, 0, 2]}, p_shared_choices=[0.3, 0.6, 0.9],
                   allow_env=H.FaultEnv.KINDS if faulty else None, reprint_targets=["python", "numpy", "cpp"], generated_programs=0.35, races=0.5, scenarios=0.4, variant_pairs=0.3)
        return {"seed": seed, "hashseed": None, "nsamples": 40 if tier == "quick" else 120,
                "history": H.gen_history(seed, self.universe, cfg)}

    def run_case(self, case):
        warnings.simplefilter("ignore")
        fa = self.fa
        log = EventLog(keep=False)
        log.ev("seed", case.get("seed"))
        orc = Oracle(case, fa.Expr, fa)
        faults = {}
        ex = H.Executor(log, orc.on_text, orc.stats, orc.probes, faults)
        ex.run(case["history"])
        orc.finish_cpp()
        texts = sum(v for k, v in orc.stats.items() if k.startswith("texts:"))
        for v in orc.violations:
            log.ev("VIOLATION", v["cls"], v["key"])
        hist = case["history"]
        return {
            "case": case,
            "digest": log.digest(),
            "violations": orc.violations,
            "stats": orc.stats,
            "probes": orc.probes,
            "faults": faults,
            "states": sorted(orc.states),
            "steps": ex.steps,
            "case_digest": digest_of(hist)[:16],
            "nontrivial": texts >= 3 and orc.probes.get("text_from_context_with_history", 0) >= 1,
            "sample": {"n_actions": len(hist), "history_first_actions": hist[:14], "texts_checked": texts},
        }

    def after_batch(self, agg, tier, master):
        c = agg.counters
        return {"texts_checked": sum(v for k, v in c.items() if k.startswith("stats.texts:")),
                "samples_executed": sum(v for k, v in c.items() if k.startswith("stats.samples:")),
                "programs": len(self.universe)}
