"""Independent interpreters of a traced graph, one per executable target's primitive library.

  PyInterp     Python floats / complex with the `math` module (lazy select / and / or, as Python)
  NpInterp     NumPy scalars of the declared dtype
  CInterp      C double / complex<double> semantics with glibc libm called through ctypes

An operation kind an interpreter does not know raises Uninterpretable (the program is counted,
never flagged).  Where a kind's meaning on an input is ambiguous (NaN operand of maximum/minimum,
sign of +-0 / NaN) the evaluation is *tainted* and the sample is skipped.
"""

import ctypes
import math
import struct
import sys


class Uninterpretable(Exception):
    pass


class Tainted(Exception):
    pass


def walk(expr, Expr, seen=None, out=None):
    """All Expr nodes reachable from expr in post-order (operands first); does not descend into the
    alternative-context value of constants."""
    if seen is None:
        seen, out = set(), []
    if id(expr) in seen:
        return out
    seen.add(id(expr))
    for o in expr.operands:
        if isinstance(o, Expr):
            if expr.kind == "constant" and o is expr.operands[0]:
                continue
            walk(o, Expr, seen, out)
    out.append(expr)
    return out


def bits64(x):
    return struct.pack("<d", x).hex()


def canon_result(v):
    """Bit-exact, type-tagged canonical form of a result (NaN == NaN whatever the payload/sign)."""
    try:
        import numpy
    except ImportError:  # pragma: no cover
        numpy = None
    if numpy is not None and isinstance(v, (numpy.generic, numpy.ndarray)):
        a = numpy.asarray(v)
        if a.shape != ():
            return ("ndarray", str(a.dtype), a.shape, a.tobytes().hex())
        s = a[()]
        if a.dtype.kind == "f":
            return (str(a.dtype), "nan" if s != s else a.tobytes().hex())
        if a.dtype.kind == "c":
            parts = []
            for p in (s.real, s.imag):
                parts.append("nan" if p != p else numpy.asarray(p).tobytes().hex())
            return (str(a.dtype), tuple(parts))
        return (str(a.dtype), a.tobytes().hex())
    if isinstance(v, bool):
        return ("bool", v)
    if isinstance(v, int):
        return ("int", v)
    if isinstance(v, float):
        return ("float", "nan" if v != v else bits64(v))
    if isinstance(v, complex):
        return ("complex", tuple("nan" if p != p else bits64(p) for p in (v.real, v.imag)))
    if isinstance(v, (list, tuple)):
        return ("list", tuple(canon_result(x) for x in v))
    return ("other", repr(v))


# ====================================================================== Python target


class PyInterp:
    """Direct evaluation with Python floats/complex and the math module."""

    ERRORS = (ValueError, OverflowError, ZeroDivisionError, TypeError)

    def __init__(self, Expr):
        self.Expr = Expr

    NAMED = {"largest": sys.float_info.max, "smallest": sys.float_info.min, "posinf": math.inf, "neginf": -math.inf, "pi": math.pi}

    def alt_eval(self, v):
        """Value of a constant expression of the alternative context (no free symbols: its symbols only
        carry the constant type)."""
        memo = {}

        def ev(x):
            if id(x) not in memo:
                if x.kind == "symbol":
                    raise Uninterpretable("symbol used as a value in the alternative context")
                memo[id(x)] = self.node(x, ev)
            return memo[id(x)]

        return ev(v)

    def const(self, e):
        v = e.operands[0]
        if isinstance(v, self.Expr):
            return self.alt_eval(v)
        if isinstance(v, str):
            if v not in self.NAMED:
                raise Uninterpretable("named constant " + v)
            return self.NAMED[v]
        if isinstance(v, (bool, int, float, complex)) and type(v).__module__ == "builtins":
            return v
        raise Uninterpretable("constant of type " + type(v).__name__)

    def lazy(self, root, env):
        memo = {}

        def ev(e):
            k = id(e)
            if k in memo:
                return memo[k]
            r = self.node(e, ev)
            memo[k] = r
            return r

        return ev(root)

    def eager_raises(self, root, env_unused):
        """Does evaluating *every* node raise somewhere?  (Named sub-expressions are computed eagerly by
        generated code even when a select would not need them.)"""
        vals = {}
        raised = [False]
        tainted = [False]
        POISON = object()

        for e in walk(root, self.Expr):
            def ev(o):
                v = vals[id(o)]
                if v is POISON:
                    raise _Poisoned()
                return v

            try:
                vals[id(e)] = self.node(e, ev)
            except _Poisoned:
                vals[id(e)] = POISON
            except Tainted:
                tainted[0] = True
                vals[id(e)] = POISON
            except self.ERRORS:
                raised[0] = True
                vals[id(e)] = POISON
        if not raised[0] and tainted[0]:
            return None  # inconclusive: a node downstream of an ambiguous one could not be evaluated
        return raised[0]

    def bind(self, apply_expr, args):
        self.env = {}
        params = apply_expr.operands[1:-1]
        if len(params) != len(args):
            raise Uninterpretable("arity")
        for p, a in zip(params, args):
            if p.kind != "symbol":
                raise Uninterpretable("non-symbol parameter")
            self.env[id(p)] = a

    def node(self, e, ev):
        k = e.kind
        if k == "symbol":
            if id(e) not in self.env:
                raise Uninterpretable("free symbol %s" % (e.operands[0],))
            return self.env[id(e)]
        if k == "constant":
            return self.const(e)
        o = e.operands
        if k == "select":
            return ev(o[1]) if ev(o[0]) else ev(o[2])
        if k == "logical_and":
            return ev(o[0]) and ev(o[1])
        if k == "logical_or":
            return ev(o[0]) or ev(o[1])
        if k == "logical_not":
            return not ev(o[0])
        a = ev(o[0])
        if k == "negative":
            return -a
        if k == "positive":
            return +a
        if k == "absolute":
            if isinstance(a, complex) and (a.real != a.real or a.imag != a.imag) and not (math.isinf(a.real) or math.isinf(a.imag)):
                # CPython <= 3.12: abs(complex) with a NaN part returns NaN without resetting errno and then
                # tests errno, so it raises OverflowError iff an unrelated earlier libm call left ERANGE behind
                raise Tainted()
            return abs(a)
        if k == "real":
            return a.real
        if k == "imag":
            return a.imag
        if k == "conjugate":
            return a.conjugate()
        if k == "is_finite":
            return math.isfinite(a)
        if k == "sign":
            if a != a or a == 0:
                raise Tainted()
            return math.copysign(1, a)
        if k in ("sqrt", "log", "log1p", "log2", "log10", "exp", "expm1", "sin", "cos", "tan", "sinh", "cosh", "tanh",
                 "acos", "acosh", "asinh", "atan", "atanh", "ceil", "floor"):
            return getattr(math, k)(a)
        if len(o) < 2:
            raise Uninterpretable(k)
        b = ev(o[1])
        if k == "add":
            return a + b
        if k == "subtract":
            return a - b
        if k == "multiply":
            return a * b
        if k == "divide":
            return a / b
        if k == "pow":
            return a**b
        if k in ("maximum", "minimum"):
            if a != a or b != b:
                raise Tainted()
            if a == 0 and b == 0:
                raise Tainted()  # which zero is returned is the template's choice
            return max(a, b) if k == "maximum" else min(a, b)
        if k == "atan2":
            return math.atan2(a, b)
        if k == "copysign":
            return math.copysign(a, b)
        if k == "complex":
            return complex(a, b)
        if k == "lt":
            return a < b
        if k == "le":
            return a <= b
        if k == "gt":
            return a > b
        if k == "ge":
            return a >= b
        if k == "eq":
            return a == b
        if k == "ne":
            return a != b
        raise Uninterpretable(k)


class _Poisoned(Exception):
    pass


# ====================================================================== NumPy target


class NpInterp:
    """Direct evaluation with NumPy scalars of the declared dtype (everything is eager, as numpy.where is)."""

    def __init__(self, Expr):
        import numpy

        self.Expr = Expr
        self.np = numpy

    def dtype_of(self, e):
        t = e.get_type()
        name = {"float": "float64", "complex": "complex128", "integer": "int64", "boolean": "bool_"}.get(str(t), str(t))
        name = name.replace("integer", "int")
        dt = getattr(self.np, name, None)
        if dt is None:
            raise Uninterpretable("dtype " + str(t))
        return dt

    def bind(self, apply_expr, args):
        self.env = {}
        params = apply_expr.operands[1:-1]
        if len(params) != len(args):
            raise Uninterpretable("arity")
        for p, a in zip(params, args):
            if p.kind == "list" and isinstance(a, list) and len(a) == len(p.operands):
                for item, v in zip(p.operands, a):
                    if item.kind != "symbol":
                        raise Uninterpretable("non-symbol list item")
                    self.env[id(item)] = self.dtype_of(item)(v)
                self.env[id(p)] = [self.env[id(item)] for item in p.operands]
                continue
            if p.kind != "symbol":
                raise Uninterpretable("non-symbol parameter")
            self.env[id(p)] = self.dtype_of(p)(a)

    def evaluate(self, root):
        np = self.np
        vals = {}
        with np.errstate(all="ignore"):
            import warnings

            with warnings.catch_warnings():
                warnings.simplefilter("ignore")
                for e in walk(root, self.Expr):
                    vals[id(e)] = self.node(e, lambda o: vals[id(o)])
        return vals[id(root)]

    def node(self, e, ev):
        np = self.np
        k = e.kind
        if k == "symbol":
            if id(e) not in self.env:
                raise Uninterpretable("free symbol")
            return self.env[id(e)]
        if k == "constant":
            v, like = e.operands
            dt = self.dtype_of(like)
            if isinstance(v, self.Expr):
                # printed as dtype_of_like(<the alt expression evaluated in the alt context's own dtypes>)
                memo = {}

                def aev(x):
                    if id(x) not in memo:
                        if x.kind == "symbol":
                            raise Uninterpretable("symbol used as a value in the alternative context")
                        memo[id(x)] = self.node(x, aev)
                    return memo[id(x)]

                return dt(aev(v))
            if isinstance(v, str):
                if dt not in (np.float16, np.float32, np.float64, np.complex64, np.complex128):
                    raise Uninterpretable("named constant of dtype %s" % dt)
                fdt = {np.complex64: np.float32, np.complex128: np.float64}.get(dt, dt)
                fi = np.finfo(fdt)
                table = {"smallest_subnormal": fi.smallest_subnormal, "smallest": fi.smallest_normal, "eps": fi.eps,
                         "largest": fi.max, "posinf": dt(np.inf), "neginf": -dt(np.inf), "pi": dt(np.pi), "nan": dt(np.nan)}
                if v not in table:
                    raise Uninterpretable("named constant " + v)
                return table[v]
            return dt(v)
        o = e.operands
        a = ev(o[0])
        if k == "select":
            return np.where(a, ev(o[1]), ev(o[2]))
        if k == "logical_and":
            return np.logical_and(a, ev(o[1]))
        if k == "logical_or":
            return np.logical_or(a, ev(o[1]))
        if k == "logical_not":
            return np.logical_not(a)
        if k == "negative":
            return -a
        if k == "positive":
            return +a
        if k == "absolute":
            return np.abs(a)
        if k == "real":
            return a.real
        if k == "imag":
            return a.imag
        if k == "conjugate":
            return a.conjugate()
        if k == "is_finite":
            return np.isfinite(a)
        if k == "sign":
            if a != a or a == 0:
                raise Tainted()
            return np.sign(a)
        if k == "square":
            return np.square(a)
        unary = {"sqrt": "sqrt", "log": "log", "log1p": "log1p", "log2": "log2", "log10": "log10", "exp": "exp", "exp2": "exp2",
                 "expm1": "expm1", "sin": "sin", "cos": "cos", "tan": "tan", "sinh": "sinh", "cosh": "cosh", "tanh": "tanh",
                 "asin": "arcsin", "acos": "arccos", "atan": "arctan", "asinh": "arcsinh", "acosh": "arccosh", "atanh": "arctanh",
                 "ceil": "ceil", "floor": "floor", "truncate": "trunc"}
        if k in unary:
            return getattr(np, unary[k])(a)
        if k in ("upcast", "downcast"):
            raise Uninterpretable(k)
        if len(o) < 2:
            raise Uninterpretable(k)
        b = ev(o[1])
        if k == "add":
            return a + b
        if k == "subtract":
            return a - b
        if k == "multiply":
            return a * b
        if k == "divide":
            return a / b
        if k == "pow":
            return a**b
        if k in ("maximum", "minimum"):
            if np.any(a != a) or np.any(b != b) or (a == 0 and b == 0):
                raise Tainted()
            return max(a, b) if k == "maximum" else min(a, b)
        if k == "atan2":
            return np.arctan2(a, b)
        if k == "hypot":
            return np.hypot(a, b)
        if k == "copysign":
            return np.copysign(a, b)
        if k == "nextafter":
            return np.nextafter(a, b)
        if k == "complex":
            # two float32 -> complex64, two float64 -> complex128
            if a.dtype == np.float32 and b.dtype == np.float32:
                return np.array([a, b]).view(np.complex64)[0]
            if a.dtype == np.float64 and b.dtype == np.float64:
                return np.array([a, b]).view(np.complex128)[0]
            raise Uninterpretable("complex of %s, %s" % (a.dtype, b.dtype))
        cmp = {"lt": np.less, "le": np.less_equal, "gt": np.greater, "ge": np.greater_equal, "eq": np.equal, "ne": np.not_equal}
        if k in cmp:
            return cmp[k](a, b)
        raise Uninterpretable(k)


# ====================================================================== C++ target (double / complex<double>)


class CInterp:
    """C semantics on double with glibc libm through ctypes; complex<double> values are only built
    and taken apart (real/imag/complex); any arithmetic or libm call on a complex operand is
    uninterpretable here (the C++ library's complex algorithms are not re-implemented)."""

    def __init__(self, Expr):
        self.Expr = Expr
        m = ctypes.CDLL("libm.so.6")
        self.m = {}
        for name in ("sqrt", "log", "log1p", "log2", "log10", "exp", "expm1", "sin", "cos", "tan", "sinh", "cosh", "tanh",
                     "asin", "acos", "atan", "asinh", "acosh", "atanh", "ceil", "floor", "round", "fabs"):
            f = getattr(m, name)
            f.restype = ctypes.c_double
            f.argtypes = [ctypes.c_double]
            self.m[name] = f
        for name in ("atan2", "hypot", "copysign"):
            f = getattr(m, name)
            f.restype = ctypes.c_double
            f.argtypes = [ctypes.c_double, ctypes.c_double]
            self.m[name] = f

    def is_double(self, e):
        return str(e.get_type()) in ("float", "float64")

    def is_cdouble(self, e):
        return str(e.get_type()) in ("complex", "complex128")

    def bind(self, apply_expr, args):
        self.env = {}
        params = apply_expr.operands[1:-1]
        if len(params) != len(args):
            raise Uninterpretable("arity")
        for p, a in zip(params, args):
            if p.kind != "symbol":
                raise Uninterpretable("non-symbol parameter")
            self.env[id(p)] = a

    def lazy(self, root):
        memo = {}

        def ev(e):
            if id(e) not in memo:
                memo[id(e)] = self.node(e, ev)
            return memo[id(e)]

        return ev(root)

    def node(self, e, ev):
        k = e.kind
        if k == "symbol":
            if id(e) not in self.env:
                raise Uninterpretable("free symbol")
            return self.env[id(e)]
        if k == "constant":
            v, like = e.operands
            if isinstance(v, self.Expr):
                if not self.is_double(like):
                    raise Uninterpretable("alt-context constant of a non-double like")
                memo = {}

                def aev(x):
                    if id(x) not in memo:
                        if x.kind == "symbol":
                            raise Uninterpretable("symbol used as a value in the alternative context")
                        if x.kind == "constant" and not isinstance(x.operands[0], self.Expr) and not self.is_double(x.operands[1]):
                            raise Uninterpretable("alternative context constant type")
                        memo[id(x)] = self.node(x, aev)
                    return memo[id(x)]

                return aev(v)
            if not self.is_double(like) and not self.is_cdouble(like):
                raise Uninterpretable("constant like of type %s" % like.get_type())
            if isinstance(v, str):
                table = {"largest": sys.float_info.max, "smallest": sys.float_info.min, "posinf": math.inf,
                         "neginf": -math.inf, "pi": math.pi, "nan": math.nan}
                if v not in table:
                    raise Uninterpretable("named constant " + v)
                return table[v]
            if isinstance(v, bool) or not isinstance(v, (int, float)):
                raise Uninterpretable("constant of type " + type(v).__name__)
            return float(v)
        o = e.operands
        if k == "select":
            return ev(o[1]) if ev(o[0]) else ev(o[2])
        if k == "logical_and":
            return bool(ev(o[0])) and bool(ev(o[1]))
        if k == "logical_or":
            return bool(ev(o[0])) or bool(ev(o[1]))
        if k == "logical_not":
            return not ev(o[0])
        if k == "complex":
            return complex(ev(o[0]), ev(o[1]))
        a = ev(o[0])
        if k == "real":
            return a.real
        if k == "imag":
            return a.imag
        if isinstance(a, complex):
            raise Uninterpretable(k + " on complex operand")
        if k == "negative":
            return -a
        if k == "positive":
            return a
        if k == "absolute":
            return self.m["fabs"](a)
        if k == "is_finite":
            return math.isfinite(a)
        if k == "sign":
            if a != a or a == 0:
                raise Tainted()
            return self.m["copysign"](1.0, a)
        if k in ("sqrt", "log", "log1p", "log2", "log10", "exp", "expm1", "sin", "cos", "tan", "sinh", "cosh", "tanh",
                 "asin", "acos", "atan", "asinh", "acosh", "atanh", "ceil", "round"):
            return self.m[k](a)
        if len(o) < 2:
            raise Uninterpretable(k)
        b = ev(o[1])
        if isinstance(b, complex):
            raise Uninterpretable(k + " on complex operand")
        if isinstance(a, bool) or isinstance(b, bool):
            if k in ("eq", "ne"):
                return (a == b) if k == "eq" else (a != b)
            raise Uninterpretable(k + " on boolean operand")
        if k == "add":
            return a + b
        if k == "subtract":
            return a - b
        if k == "multiply":
            return a * b
        if k == "divide":
            if b == 0:
                if a != a or a == 0:
                    return math.nan
                return math.copysign(math.inf, a) * math.copysign(1.0, b)
            return a / b
        if k in ("maximum", "minimum"):
            if a != a or b != b or (a == 0 and b == 0):
                raise Tainted()
            return max(a, b) if k == "maximum" else min(a, b)
        if k == "atan2":
            return self.m["atan2"](a, b)
        if k == "lt":
            return a < b
        if k == "le":
            return a <= b
        if k == "gt":
            return a > b
        if k == "ge":
            return a >= b
        if k == "eq":
            return a == b
        if k == "ne":
            return a != b
        raise Uninterpretable(k)


# ====================================================================== inputs


def special_floats():
    return [0.0, -0.0, 1.0, -1.0, 0.5, -0.5, 2.0, 3.0, 1e-8, 1e8, 1e-160, 1e160, sys.float_info.max, -sys.float_info.max,
            sys.float_info.min, 5e-324, -5e-324, 2.2250738585072009e-308, math.inf, -math.inf, math.nan,
            0.9999999999999999, 1.0000000000000002, 1e154, 1.4916681462400413e-154, 0.1, 10.0, 1e308, 1e-308, 7.0e15]


def random_double(rng):
    r = rng.random()
    if r < 0.3:
        return rng.choice(special_floats())
    if r < 0.6:
        return struct.unpack("<d", struct.pack("<Q", rng.getrandbits(64)))[0]
    if r < 0.8:
        return rng.uniform(-4, 4)
    return math.ldexp(rng.uniform(-1, 1), rng.randint(-1074, 1023))


def random_float32(rng):
    import numpy

    r = rng.random()
    if r < 0.3:
        with numpy.errstate(all="ignore"):
            return float(numpy.float32(rng.choice(special_floats())))
    if r < 0.6:
        return float(numpy.frombuffer(struct.pack("<I", rng.getrandbits(32)), dtype=numpy.float32)[0])
    if r < 0.8:
        return float(numpy.float32(rng.uniform(-4, 4)))
    return float(numpy.float32(math.ldexp(rng.uniform(-1, 1), rng.randint(-149, 127))))
