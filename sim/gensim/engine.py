"""gensim -- the generation-service simulator (C09, C05, C06).

One engine, three oracles.  The service is Context(...) -> trace -> rewrite(target) ->
rewrite(fa.rewrite) -> tostring(target, debug); gensim drives histories of such requests with the
API steps of different requests interleaved, on a mix of fresh and shared contexts, inside
interpreters whose hash seed, GC behaviour and heap layout it controls, with aborted requests,
injected exceptions and formatter faults.
"""

import copy
import json
import os
import subprocess
import sys
import warnings
from concurrent.futures import ThreadPoolExecutor

from ..core import ddmin as dd
from ..core.evidence import VERIF
from ..core.log import EventLog, digest_of
from ..core.runner import HarnessError
from ..core.seeds import stream
from . import history as H
from .universe import TARGETS, TEXT_ONLY_TARGETS, build_universe, req_key

CHILD = os.path.join(os.path.dirname(os.path.abspath(__file__)), "child.py")


def run_child(case, hashseed, timeout=600):
    env = dict(os.environ)
    env["PYTHONHASHSEED"] = str(hashseed)
    p = subprocess.run([sys.executable, CHILD], input=json.dumps(case), capture_output=True, text=True, env=env,
                       timeout=timeout, cwd=VERIF)
    if p.returncode != 0 or not p.stdout.strip():
        raise HarnessError("history interpreter failed (rc=%s): %s" % (p.returncode, p.stderr[-1500:]))
    res = json.loads(p.stdout)
    if res.get("error"):
        raise HarnessError("history interpreter raised: " + res["error"])
    return res


def first_diff(a, b):
    la, lb = a.splitlines(), b.splitlines()
    for i, (x, y) in enumerate(zip(la, lb)):
        if x != y:
            return {"line": i + 1, "reference": x[:300], "got": y[:300]}
    return {"line": min(len(la), len(lb)) + 1, "reference": "<%d lines>" % len(la), "got": "<%d lines>" % len(lb)}


DEBUG_LEVELS = {"numpy": [0, 1]}


class GenEngineBase:
    name = "gensim"
    level = "exploration"
    timeout_s = 300.0
    selftest_n = 48
    max_minimised = 2
    min_cap = 60
    universe = None

    def preload_common(self):
        import functional_algorithms as fa

        warnings.simplefilter("ignore")
        self.fa = fa
        type(self).universe = build_universe(fa, getattr(self, "extra_targets", ()))
        if len(self.universe) < 10:
            raise HarnessError("request universe has only %d entries: trace_arguments not understood" % len(self.universe))

    def run_case(self, case):
        raise NotImplementedError

    def episode(self, task):
        return self.run_case(self.make_case(task["seed"], task.get("tier", "quick")))

    def minimise(self, case, fails, budget):
        def with_hist(h):
            c = copy.deepcopy(case)
            c["history"] = h
            return c

        hist = case["history"]
        # cheap big steps first: no heap/gc perturbation, then only the actions of the contexts that matter
        for keep in (lambda a: a[0] not in ("gc", "junk"), lambda a: a[0] not in ("gc", "junk", "env")):
            h2 = [a for a in hist if keep(a)]
            if len(h2) < len(hist) and budget.take() and fails(with_hist(h2)):
                hist = h2
        hist = dd.ddmin(hist, lambda h: fails(with_hist(h)), budget)
        c = with_hist(hist)

        def simpler(c):
            for i, a in enumerate(c["history"]):
                if a[0] == "fault":
                    d = copy.deepcopy(c)
                    d["history"][i] = a[2]
                    yield d
            if c.get("hashseed") not in (None, 0):
                d = copy.deepcopy(c)
                d["hashseed"] = 0
                yield d

        return dd.greedy(simpler, c, fails, budget)


# ====================================================================== C09


class C09Engine(GenEngineBase):
    name = "gensim-c09"
    prop = "C09"
    extra_targets = tuple(TEXT_ONLY_TARGETS)
    rule = (
        "seeded histories of generation requests (every (target, function, signature) of the python, numpy, stablehlo, xla_client, cpp and lax targets' "
        "trace_arguments, numpy at debug 0 and 1, plus naming-stress programs), API steps of different requests "
        "interleaved, compared requests on their own context (first print and repetitions), background requests on "
        "shared contexts with aborted requests and exceptions injected at the k-th line event inside the package, "
        "seeded gc.collect/disable and junk allocation, each history in a freshly exec'ed interpreter under a seeded "
        "PYTHONHASHSEED; every compared text must be byte-identical to the text of the same request made alone in a "
        "fresh interpreter under PYTHONHASHSEED=0; distinct = (request key, digest of the history prefix, hash "
        "seed) triples; non-trivial = the history compared at least two texts after at least one other request"
    )
    state_measure = "distinct (hash seed, history-prefix digest, request key) triples compared"
    components = {
        "real": ["functional_algorithms (whole package) in freshly exec'ed CPython interpreters", "real black and clang-format",
                 "real garbage collector / allocator (perturbed by seeded gc calls and junk allocation)"],
        "stub": ["none"],
    }
    assumptions = [
        "texts printed while a formatter fault window is active are history only (falling back to unformatted text without a formatter is designed behaviour); texts printed after the window closes are compared",
        "a request's reference text is the one produced alone in a fresh interpreter under PYTHONHASHSEED=0",
        "repetition on the same context is compared only when no other function was traced on that context in between",
    ]
    REF = None

    def preload(self):
        self.preload_common()
        self.compute_reference()

    def compute_reference(self, only=None):
        reqs = []
        for r in self.universe:
            for dbg in DEBUG_LEVELS.get(r["target"], [0]):
                k = req_key(r, dbg)
                if only is None or k in only:
                    reqs.append((k, r, dbg, False))
                if r["func"].startswith("stress_") and (only is None or k + ":raw" in only):
                    reqs.append((k + ":raw", r, dbg, True))

        def one(item):
            k, r, dbg, raw = item
            ctx_act = ["ctx", "c0", r["target"]] + ([r["params"], "ctor"] if r.get("params") else [])
            case = {"seed": 0, "history": [ctx_act, ["trace", "r0", "c0", r["target"], r["func"], r["sig"]],
                                           ["expand", "r0"], ["simplify", "r0"], ["print", "r0", dbg, "cmp"]]}
            if raw:
                case["history"][2:] = [["print", "r0", dbg, "cmp", "raw"]]
            elif (r.get("params") or {}).get("__pipeline__") == "user":
                # the request IS "print, rewrite with a user modifier, print again": the first print is part of it
                case["history"].insert(2, ["print", "r0", 0, "bg", "raw"])
            res = run_child(case, 0)
            outs = res["outputs"]
            return k, (outs[-1]["text"] if outs else None)

        with ThreadPoolExecutor(max_workers=os.cpu_count() or 4) as tp:
            ref = dict(tp.map(one, reqs))
        if type(self).REF is None:
            type(self).REF = {}
        type(self).REF.update(ref)
        return ref

    def tier_cfg(self, tier):
        if tier == "quick":
            return {"episodes": 160}
        return {"episodes": None, "budget_s": 900.0, "min_episodes": 160}

    def make_case(self, seed, tier="quick"):
        kn = stream(seed, "interp")
        cfg = dict(targets=list(TARGETS) + list(self.extra_targets), n_requests=30 if tier == "quick" else 45, allow_faults=True,
                   shared=True, debug_levels=DEBUG_LEVELS, generated_programs=0.08 if tier == "quick" else 0.2, deep_stack=0.12, variant_pairs=0.3,
                   env_windows=["clang_absent", "clang_absent", "clang_exit1", "clang_killed", "black_unimportable"])
        return {"seed": seed, "hashseed": kn.choice([0, 1, 2, 3, kn.randrange(2**32), kn.randrange(2**32)]),
                "history": H.gen_history(seed, self.universe, cfg)}

    def run_case(self, case):
        res = run_child(case, case.get("hashseed", 0))
        root = os.path.realpath(os.environ.get("VERIF_REPO", "/repo")) + "/"
        if not res["source"].startswith(root):
            raise HarnessError("child imported the package from " + res["source"])
        REF = self.REF or {}
        violations = []
        stats, probes, faults = res["stats"], res["probes"], res["faults"]
        hist = case["history"]
        states = set()
        compared = 0
        seen_req_before = False
        for o in res["outputs"]:
            if o["tag"] != "cmp":
                seen_req_before = True
                continue
            k = o["key"]
            if k not in REF:
                if o.get("req"):
                    # a generated program: its reference is made on demand, alone in a fresh interpreter
                    solo = {"seed": 0, "history": H.solo_history(o["req"], {"key": k, "debug": o["debug"]})}
                    solo["history"][-1][3] = "cmp"
                    outs = run_child(solo, 0)["outputs"]
                    REF[k] = outs[0]["text"] if outs else None
                    stats["references_made_for_generated_programs"] = stats.get("references_made_for_generated_programs", 0) + 1
                else:
                    self.compute_reference(only={k})
            ref = REF.get(k)
            if ref is None:
                stats["reference_unavailable"] = stats.get("reference_unavailable", 0) + 1
                continue
            same_func_only = all(p == k.split(":debug")[0] for p in o["prior"])
            if not same_func_only:
                continue
            if o.get("env"):
                # printed while a formatter fault was active: falling back to unformatted text is designed behaviour
                stats["texts_printed_inside_a_fault_window_not_compared"] = stats.get("texts_printed_inside_a_fault_window_not_compared", 0) + 1
                continue
            if o.get("ctx_had_failure"):
                # an earlier request on this very context failed half-way (injected exception, NotImplementedError,
                # RecursionError from a deep stack): the context holds half-built state -- e.g. expressions
                # created but never named -- and a repetition on it is not "the same function traced again"
                stats["repetitions_on_a_context_with_a_failed_request_not_compared"] = stats.get("repetitions_on_a_context_with_a_failed_request_not_compared", 0) + 1
                continue
            compared += 1
            states.add(digest_of([case.get("hashseed"), digest_of(hist[: o["pos"]]), k])[:12])
            if o["after_abort"]:
                probes["compared_right_after_aborted_request"] = probes.get("compared_right_after_aborted_request", 0) + 1
            if o["rep"] > 1 or o["prior"]:
                probes["compared_repetition_on_same_context"] = probes.get("compared_repetition_on_same_context", 0) + 1
            tc = o.get("tmp_counter")
            if o["target"] == "xla_client" and tc is not None:
                if tc >= 100:
                    probes["xla_client_compared_with_tmp_counter_ge_100"] = probes.get("xla_client_compared_with_tmp_counter_ge_100", 0) + 1
                elif tc >= 10:
                    probes["xla_client_compared_with_tmp_counter_ge_10"] = probes.get("xla_client_compared_with_tmp_counter_ge_10", 0) + 1
            if o["text"] != ref:
                kind = "repetition" if (o["rep"] > 1 or o["prior"]) else "first"
                if not any(v["key"] == k + "|" + kind for v in violations):
                    violations.append({"cls": "text-differs", "key": k + "|" + kind,
                                       "detail": dict(first_diff(ref, o["text"]), hashseed=case.get("hashseed"), position=o["pos"],
                                                      tmp_counter=tc)})
            seen_req_before = True
        stats["texts_compared"] = compared
        stats["texts_printed"] = len(res["outputs"])
        if any(a[0] != "fault" and a[0] in ("trace",) for a in hist) and len(hist) > 8:
            probes["interleaved_steps_histories"] = 1
        sample = {"hashseed": case.get("hashseed"), "n_actions": len(hist), "history_first_actions": hist[:14],
                  "texts_compared": compared}
        return {
            "case": case,
            "digest": res["digest"],
            "violations": violations,
            "stats": stats,
            "probes": probes,
            "faults": faults,
            "states": sorted(states),
            "steps": res["steps"],
            "case_digest": digest_of([case.get("hashseed"), hist])[:16],
            "nontrivial": compared >= 2 and len(res["outputs"]) >= 3,
            "sample": sample,
        }

    def after_batch(self, agg, tier, master):
        return {"texts_compared": agg.counters.get("stats.texts_compared", 0),
                "reference_keys": len(self.REF or {}),
                "reference_keys_with_text": sum(1 for v in (self.REF or {}).values() if v is not None)}


def engine_for(prop):
    if prop == "C09":
        return C09Engine()
    if prop == "C05":
        from .c05 import C05Engine

        return C05Engine()
    if prop == "C06":
        from .c06 import C06Engine

        return C06Engine()
    raise KeyError(prop)
