"""Binding discipline of the Python / NumPy text, by an independent `ast` scan."""

import ast
import builtins

MODULES = {"math", "sys", "numpy", "warnings", "make_complex"}
BUILTINS = set(dir(builtins))


def binding_errors(text, fname=None):
    """Every name loaded is a parameter, was assigned earlier, or is a module/builtin; every variable
    is assigned exactly once (the NumPy target re-binds each parameter once by its cast, which is that
    parameter's single assignment).  Returns (errors, assigned_names, function_name)."""
    tree = ast.parse(text)
    funcs = [n for n in tree.body if isinstance(n, ast.FunctionDef)]
    errs = []
    if len(funcs) != 1:
        return [("function-count", str(len(funcs)))], [], None
    f = funcs[0]
    params = [a.arg for a in f.args.args]
    if len(set(params)) != len(params):
        errs.append(("duplicate-parameter", ",".join(params)))
    defined = set(params)
    assigned = []
    counts = {}

    def loads(node):
        for n in ast.walk(node):
            if isinstance(n, ast.Name) and isinstance(n.ctx, ast.Load):
                yield n.id

    def stmt(s):
        if isinstance(s, ast.With):
            for item in s.items:
                for name in loads(item.context_expr):
                    use(name)
            for b in s.body:
                stmt(b)
        elif isinstance(s, (ast.Assign, ast.AnnAssign)):
            value = s.value
            targets = s.targets if isinstance(s, ast.Assign) else [s.target]
            if value is not None:
                for name in loads(value):
                    use(name)
            for t in targets:
                if not isinstance(t, ast.Name):
                    errs.append(("unexpected-assignment-target", ast.dump(t)[:60]))
                    continue
                counts[t.id] = counts.get(t.id, 0) + 1
                if counts[t.id] > 1:
                    errs.append(("assigned-twice", t.id))
                defined.add(t.id)
                assigned.append(t.id)
        elif isinstance(s, (ast.Return, ast.Expr, ast.Assert)):
            for name in loads(s):
                use(name)
        elif isinstance(s, ast.Pass):
            pass
        else:
            errs.append(("unexpected-statement", type(s).__name__))

    def use(name):
        if name not in defined and name not in MODULES and name not in BUILTINS:
            errs.append(("use-before-binding", name))

    for s in f.body:
        stmt(s)
    return errs, assigned, f.name
