"""Seeded generator of small algorithm definitions (Python source, traced like any user algorithm).

Workload diversification for the history simulator: the shipped trace_arguments and the hand-written
naming-stress programs cover a dozen program shapes; breaking changes that need another shape (a
constant on the left of a comparison, two constants with confusable names, a local named like
another function's, ...) are invisible to them.  A generated program is identified by its seed
alone: `get_generated(seed)` is a pure function of it.

Only kinds that the shipped algorithms use are generated, all operands have the argument's dtype,
constants are finite and non-NaN.  Local names never start with an operation kind, `abs_` or
`constant_` (an auto-generated name colliding with a user name is known finding 7).
"""

import random

from ..core.seeds import derive

UNARY = ["negative", "absolute", "sqrt", "square", "log1p", "log", "exp", "sign"]
BINARY = ["add", "subtract", "multiply", "divide", "maximum", "minimum", "hypot", "atan2"]
COMPARE = ["lt", "le", "gt", "ge", "eq", "ne"]
CONSTS = ["0.0", "-0.0", "1", "2", "-1", "3", "0.5", "2.5", "0.625", "-2.5", "1.5", "-1.5", "1e300", "1e-300",
          "2.0**-600", "2.0**600", "3.0000000000000004", "1e22", "1e-22", "0.1", "7.0", "'largest'", "'smallest'",
          "'posinf'", "'neginf'"]
NAMES = ["t", "u", "w", "s", "r", "q", "h", "p", "acc", "tmp", "res", "val", "x2", "y2", "xy", "mx", "mn", "lo", "hi",
         "scale", "z__re", "first", "second", "a", "b", "c"]
OPERATOR_FORM = {"add": "({0} + {1})", "subtract": "({0} - {1})", "multiply": "({0} * {1})", "divide": "({0} / {1})",
                 "negative": "(-{0})", "absolute": "abs({0})", "lt": "({0} < {1})", "le": "({0} <= {1})",
                 "gt": "({0} > {1})", "ge": "({0} >= {1})"}


INF_CONSTS = ["float('inf')", "-float('inf')"]


def _operand_impl(rng, avail, like, p_const=0.3, allow_raw_number=True, consts=CONSTS):
    if rng.random() < p_const:
        c = rng.choice(consts)
        if c in INF_CONSTS:
            return "ctx.constant(%s, %s)" % (c, like)
        if c.startswith("'") or not allow_raw_number or rng.random() < 0.4:
            return "ctx.constant(%s, %s)" % (c, like)
        return c
    return rng.choice(avail)


def gen_source(seed, complex_input=False, infinities=False):
    rng = random.Random(derive(seed, "progen"))
    consts = CONSTS + INF_CONSTS * 2 if infinities else CONSTS
    base_operand = _operand_impl

    def _operand(rng_, avail_, like_, p_const=0.3, allow_raw_number=True):
        return base_operand(rng_, avail_, like_, p_const, allow_raw_number, consts)

    nargs = 1 if complex_input else rng.choice([1, 2, 2])
    argnames = ["z"] if complex_input else rng.sample(["x", "y"], nargs) if nargs == 2 else [rng.choice(["x", "z", "y"])]
    fname = "gen_%x" % (derive(seed, "name") & 0xFFFFFF)
    lines = []
    avail = list(argnames)
    like = argnames[0]
    if complex_input:
        style = rng.choice(["named", "anonymous", "mixed"])
        if style == "named":
            lines += ["x = z.real", "y = z.imag"]
            avail = ["x", "y"]
        elif style == "anonymous":
            avail = ["z.real", "z.imag", "abs(z)"]
        else:
            lines += ["y = z.imag"]
            avail = ["z.real", "y", "abs(z)"]
        like = avail[0]
    bools = []
    used_names = set(argnames) | {"x", "y"} if complex_input else set(argnames)
    helper = None
    n = rng.randint(2, 9)
    for i in range(n):
        r = rng.random()
        if r < 0.2 and len(avail) >= 1:
            k = rng.choice(COMPARE)
            a = _operand(rng, avail, like, 0.35)
            b = _operand(rng, avail, like, 0.35)
            if not (a in avail or b in avail):
                # never constant-only: the rewriter would fold it into a boolean constant, and boolean / default-like
                # constants of the cpp and xla_client printers are a program-dimension matter (DESIGN.md section 11)
                (a, b) = (rng.choice(avail), b) if rng.random() < 0.5 else (a, rng.choice(avail))
            expr = "ctx.%s(%s, %s)" % (k, a, b)  # the Context method keeps a constant on the left
            if rng.random() < 0.3 and bools:
                expr = "ctx.logical_%s(%s, %s)" % (rng.choice(["and", "or"]), expr, rng.choice(bools))
            elif rng.random() < 0.1:
                expr = "ctx.logical_not(%s)" % expr
            elif rng.random() < 0.1:
                expr = "ctx.logical_and(%s, ctx.is_finite(%s))" % (expr, rng.choice(avail))
            name = "c%d" % i
            lines.append("%s = %s" % (name, expr))
            bools.append(name)
            continue
        if r < 0.35 and bools:
            sa, sb = _operand(rng, avail, like), _operand(rng, avail, like)
            if not (sa in avail or sb in avail):
                sa = rng.choice(avail)
            expr = "ctx.select(%s, %s, %s)" % (rng.choice(bools), sa, sb)
        elif r < 0.55:
            k = rng.choice(UNARY)
            a = rng.choice(avail)
            expr = OPERATOR_FORM[k].format(a) if k in OPERATOR_FORM and rng.random() < 0.5 else "ctx.%s(%s)" % (k, a)
        elif r < 0.62 and helper is None and i < n - 1:
            helper = rng.choice(["_helper_sq", "_helper_t"])
            expr = "ctx.call(%s, (%s,))" % (helper, rng.choice(avail))
        elif r < 0.68 and helper is not None:
            expr = "ctx.call(%s, (%s,))" % (helper, rng.choice(avail))
        else:
            k = rng.choice(BINARY)
            a = _operand(rng, avail, like)
            b = _operand(rng, avail, like)
            if not (a in avail or b in avail):
                a = rng.choice(avail)
            if k in OPERATOR_FORM and rng.random() < 0.6:
                expr = OPERATOR_FORM[k].format(a, b)
            else:
                expr = "ctx.%s(%s, %s)" % (k, a, b)
        if rng.random() < 0.7:
            cands = [nm for nm in NAMES if nm not in used_names] or ["v%d" % i]
            name = rng.choice(cands)
            used_names.add(name)
            if rng.random() < 0.15 and not expr[0].isdigit() and not expr.startswith(("-", "'")):
                # the explicit naming API: a reference name of the user's choice, forced or not
                rn = rng.choice([nm for nm in NAMES if nm not in used_names] or ["w%d" % i])
                used_names.add(rn)
                expr = "(%s).reference(ref_name=%r, force=%s)" % (expr, rn, rng.choice(["True", "False", "None"]))
            lines.append("%s = %s" % (name, expr))
            avail.append(name)
        else:
            avail.append(expr)  # anonymous: re-used textually, hence the same expression object
    # result: combine the last values so that most of the program is live
    tail = avail[len(argnames) if not complex_input else 0:][-3:] or avail[-1:]
    result = tail[0]
    for t in tail[1:]:
        result = "(%s %s %s)" % (result, rng.choice(["+", "*", "-"]), t)
    if complex_input and rng.random() < 0.6:
        result = "ctx.complex(%s, %s)" % (result, rng.choice(avail))
    # (not called `result`: the numpy target binds that name itself)
    lines.append("out = %s" % result)
    lines.append("return ctx(out)" if rng.random() < 0.8 else "return out")
    src = ["def _helper_sq(ctx, p):", "    t = p * p + p", "    return ctx(t * t)", "",
           "def _helper_t(ctx, p):", "    t = p - 3", "    u = t * t + t", "    return ctx(u * t)", "",
           "def %s(ctx, %s):" % (fname, ", ".join(argnames))]
    src += ["    " + ln for ln in lines]
    return "\n".join(src) + "\n", fname, nargs


_cache = {}


def get_generated(seed, complex_input=False, infinities=False):
    key = (seed, complex_input, infinities)
    if key not in _cache:
        src, fname, nargs = gen_source(seed, complex_input, infinities)
        ns = {}
        exec(compile(src, "<generated program %s>" % seed, "exec"), ns)
        f = ns[fname]
        f.__source__ = src
        _cache[key] = (f, nargs, src)
    return _cache[key]
