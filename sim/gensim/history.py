"""Histories of generation requests: generation (seeded) and execution (literal action lists).

Actions (JSON lists):
  ["ctx", cid, target[, params, how]]        new Context as results/update.py makes it for `target`; optional context
                                             parameters given to the constructor ("ctor") or assigned afterwards ("post")
  ["trace", rid, cid, target, func, sig]     g = ctx.trace(func, *sig)
  ["expand", rid]                            g = g.rewrite(target)
  ["simplify", rid]                          g = g.rewrite(fa.rewrite)
  ["print", rid, debug, tag]                 text = g.tostring(target, debug=debug); tag "cmp" | "bg"
  ["gc", mode]                               collect | disable | enable
  ["junk", n]                                allocate and keep n small objects (shifts addresses)
  ["env", kind]                              formatter environment fault from here on (see FaultEnv)
  ["drop", cid]                              forget a context and its requests, then gc.collect()
  ["deep", n, action]                        run action from n extra Python frames (little interpreter stack left)
  ["fault", k, action]                       run action, raise InjectedFault at the k-th line event
                                             inside functional_algorithms/**
"""

import gc
import hashlib
import os
import sys

from ..core.seeds import stream
from .universe import STRESS, context_params, decode_sig, generated_request, get_func, make_context, print_options, req_key


class InjectedFault(BaseException):
    pass


# ------------------------------------------------------------------ generation


def gen_history(seed, universe, cfg):
    """cfg: dict(compare_targets, n_requests, allow_faults, allow_env, shared, debug_levels)"""
    kn = stream(seed, "knobs")
    rq = stream(seed, "ops")
    sch = stream(seed, "schedule")
    fl = stream(seed, "faults")
    n = kn.randint(cfg.get("min_requests", 3), cfg["n_requests"])
    p_shared = kn.choice(cfg.get("p_shared_choices", [0.0, 0.3, 0.6])) if cfg.get("shared", True) else 0.0
    p_repeat = kn.choice([0.0, 0.2, 0.5])
    p_fault = kn.choice([0.0, 0.1, 0.25]) if cfg.get("allow_faults", True) else 0.0
    fault_span = kn.choice([30, 300, 3000, 30000])
    granularity = kn.choice(["request", "step", "step"])
    p_gc = kn.choice([0.0, 0.05, 0.2])
    focus = kn.random() < 0.35  # many requests of one target (e.g. to advance the _tmp counter)
    focus_target = kn.choice(cfg["targets"])
    cmp_targets = cfg.get("compare_targets") or cfg["targets"]
    by_target = {}
    for r in universe:
        by_target.setdefault(r["target"], []).append(r)

    seen_funcs = []
    threads = []  # each: list of actions in order
    shared_ctx = {}  # target -> cid list
    ctx_funcs = {}  # cid -> functions requested on it so far
    next_c = [0]
    next_r = [0]

    def new_cid():
        next_c[0] += 1
        return "c%d" % next_c[0]

    def new_rid():
        next_r[0] += 1
        return "r%d" % next_r[0]

    def steps(rid, cid, r, debug, tag, fault_ok, raw=None):
        if (r.get("params") or {}).get("__pipeline__") == "user":
            return [["trace", rid, cid, r["target"], r["func"], r["sig"]], ["print", rid, 0, "bg", "raw"],
                    ["expand", rid], ["simplify", rid], ["print", rid, debug, tag]]
        if raw is None:
            raw = r["func"].startswith("stress_") and rq.random() < 0.3
        if raw:
            # print right after tracing (no expansion / simplification): keeps the call-frame origins of
            # the traced expressions, hence exercises the origin-prefixed reference names
            acts = [["trace", rid, cid, r["target"], r["func"], r["sig"]], ["print", rid, debug, tag, "raw"]]
        else:
            acts = [["trace", rid, cid, r["target"], r["func"], r["sig"]], ["expand", rid], ["simplify", rid], ["print", rid, debug, tag]]
        if fault_ok and not raw and rq.random() < 0.15:
            # a legal option of Expr.rewrite that nothing in the repository uses: top-down rewriting
            acts[1] = ["expand", rid, "top-down"]
            if rq.random() < 0.5:
                acts[2] = ["simplify", rid, "top-down"]
        if fault_ok and fl.random() < p_fault:
            i = fl.randrange(len(acts))
            acts[i] = ["fault", fl.randint(1, fault_span), acts[i]]
        return acts

    for _ in range(n):
        t = focus_target if focus and rq.random() < 0.7 else rq.choice(cfg["targets"])
        if t not in by_target:
            continue
        r = rq.choice(by_target[t])
        if seen_funcs and rq.random() < 0.25:
            # another variant (signature, context parameters, paths, options) of a function this process has already
            # been asked for: same name, different graph, usually in another context
            f0 = rq.choice(seen_funcs)
            variants = [q for q in by_target[t] if q["func"] == f0]
            if variants:
                r = rq.choice(variants)
        rare = [q for q in by_target[t] if (q.get("params") or {}).get("__pipeline__") == "user"]
        if rare and rq.random() < 0.04:
            r = rq.choice(rare)  # a floor for the few requests of the user-modifier pipeline among hundreds of others
        seen_funcs.append(r["func"])
        if cfg.get("generated_programs") and rq.random() < cfg["generated_programs"]:
            r = generated_request(rq, t)
        debug = rq.choice(cfg.get("debug_levels", {}).get(t, [0]))
        if rq.random() < p_shared and not r.get("params"):
            # background / shared-context request (its context is shared with other functions and targets)
            pool = shared_ctx.setdefault("xla" if t == "xla_client" else "plain", [])
            acts = []
            if not pool or rq.random() < 0.3:
                cid = new_cid()
                pool.append(cid)
                acts.append(["ctx", cid, t])
            else:
                cid = rq.choice(pool)
                # naming stress: the same function (hence the same argument and local names) again on this
                # context with another signature, or another function of the same family
                earlier = ctx_funcs.get(cid, [])
                if earlier and rq.random() < 0.5:
                    f0 = rq.choice(earlier)
                    same = [q for q in by_target[t] if q["func"] == f0 or q["func"].split("_")[-1] == f0.split("_")[-1]
                            or (f0.startswith("stress_pair_") and q["func"].startswith("stress_pair_"))]
                    if same:
                        r = rq.choice(same)
            ctx_funcs.setdefault(cid, []).append(r["func"])
            acts += steps(new_rid(), cid, r, debug, "bg", True)
            last = acts[-1] if acts[-1][0] != "fault" else acts[-1][2]
            if rq.random() < 0.2 and len(last) == 4:
                acts.append(["print", last[1], debug, "bg"])
            if t != "xla_client" and cfg.get("reprint_targets") and rq.random() < 0.25:
                # the same graph printed with another target from the same context
                t2 = rq.choice([x for x in cfg["reprint_targets"] if x != t] or [t])
                narrow = any(x in (":float32", ":complex64") for x in r["sig"])
                if t2 == "python" and (r["func"] == "stress_literal_infinities" or r["func"].endswith(":i")):
                    pass  # the python target prints a literal infinity as the bare name `inf` (not claimed, see universe)
                elif not (t2 == "cpp" and r["func"].startswith("gen:") and narrow):  # see universe.generated_request
                    acts.append(["reprint", last[1], t2, rq.choice(cfg.get("debug_levels", {}).get(t2, [0]))])
            threads.append(acts)
        else:
            # compared request: its own context, used for it and its repetitions only
            cid = new_cid()
            rid = new_rid()
            tag = "cmp" if t in cmp_targets else "bg"
            raw = r["func"].startswith("stress_") and rq.random() < 0.3  # one pipeline per compared context
            if r.get("params"):
                # parameters given to the constructor, or assigned to ctx.parameters afterwards
                acts = [["ctx", cid, t, r["params"], rq.choice(["ctor", "post"])]]
            else:
                acts = [["ctx", cid, t]]
            acts += steps(rid, cid, r, debug, tag, False, raw)
            if cfg.get("deep_stack") and rq.random() < cfg["deep_stack"]:
                depth = rq.randint(880, 990)
                acts = [["deep", depth, x] if x[0] in ("expand", "simplify") else x for x in acts]
            while rq.random() < p_repeat and len(acts) < 14:
                if rq.random() < 0.5:
                    acts.append(["print", rid, debug, tag] + (["raw"] if raw else []))
                else:
                    rid = new_rid()
                    acts += steps(rid, cid, r, debug, tag, False, raw)
            if rq.random() < 0.5:
                # users drop a context when they are done with it: its expressions die and their addresses
                # are recycled by whatever is built next
                acts.append(["drop", cid])
            threads.append(acts)

    # scripted: a print that may fail half-way (before expansion), then another function on the same context
    if cfg.get("scenarios") and kn.random() < cfg["scenarios"]:
        t = rq.choice([x for x in cfg["targets"] if x in by_target])
        progs = [q for q in by_target[t] if q["func"].startswith("stress_") and not q.get("params")]
        if len(progs) >= 2:
            f = rq.choice(progs)
            fam = [q for q in progs if q["func"] != f["func"] and q["sig"] == f["sig"]]
            pair = [q for q in fam if f["func"].startswith("stress_pair_") and q["func"].startswith("stress_pair_")]
            g = rq.choice(pair or fam or progs)
            cid, r1, r2 = new_cid(), new_rid(), new_rid()
            acts = [["ctx", cid, t], ["trace", r1, cid, t, f["func"], f["sig"]], ["print", r1, 0, "bg", "raw"]]
            acts += steps(r2, cid, g, 0, "bg", False, False)
            if rq.random() < 0.5:
                # ... and the first function itself, now rewritten (top-down or not) and printed again
                td = ["top-down"] if rq.random() < 0.6 else []
                acts += [["expand", r1] + td, ["simplify", r1] + (td if rq.random() < 0.5 else []), ["print", r1, 0, "bg"]]
            threads.append(acts)

    # scripted: two variants of ONE function (same name; another context parameter / tracing kwarg, signature, paths or
    # option) on two fresh contexts of one target -- same names, same creation order, different graphs
    vs = stream(seed, "variants")
    if cfg.get("variant_pairs") and vs.random() < cfg["variant_pairs"]:
        t = vs.choice([x for x in cfg["targets"] if x in by_target])
        groups = {}
        for q in by_target[t]:
            if (q.get("params") or {}).get("__pipeline__") != "user":
                groups.setdefault(q["func"], []).append(q)
        multi = sorted(f for f, g in groups.items() if len(g) >= 2)
        par = [f for f in multi if any(q.get("params") and not all(k.startswith("__") for k in q["params"]) for q in groups[f])]
        if multi:
            f = vs.choice(par) if par and vs.random() < 0.5 else vs.choice(multi)
            raw = f.startswith("stress_") and vs.random() < 0.4  # both through the same pipeline
            for q in vs.sample(groups[f], 2):
                cid, rid = new_cid(), new_rid()
                acts = [["ctx", cid, t] + ([q["params"], vs.choice(["ctor", "post"])] if q.get("params") else [])]
                acts += steps(rid, cid, q, 0, "cmp" if t in cmp_targets else "bg", False, raw)
                threads.append(acts)

    # two requests on unrelated contexts whose prints run concurrently in two threads of this process, with the
    # simulator deciding the interleaving at line granularity inside utils.format_cpp (the only I/O seam they share)
    if cfg.get("races") and kn.random() < cfg["races"]:
        cands = [t for t in cfg["targets"] if t in ("cpp", "xla_client") and t in by_target]
        if cands:
            acts, rids = [], []
            for _ in range(2):
                t = rq.choice(cands)
                r = rq.choice(by_target[t])
                cid, rid = new_cid(), new_rid()
                ctx_act = ["ctx", cid, t] + ([r["params"], "ctor"] if r.get("params") else [])
                acts += [ctx_act, ["trace", rid, cid, r["target"], r["func"], r["sig"]], ["expand", rid], ["simplify", rid]]
                rids.append(rid)
            p_sw = rq.choice([0.1, 0.3, 0.6])
            acts.append(["race", rids, [(sch.randrange(2) if sch.random() < p_sw else -1) for _ in range(400)]])
            threads.append(acts)

    # interleave
    history = []
    if granularity == "request":
        order = list(range(len(threads)))
        sch.shuffle(order)
        for i in order:
            history += threads[i]
    else:
        live = [list(t) for t in threads]
        window = kn.randint(2, 5)
        active = []
        while live or active:
            while live and len(active) < window:
                active.append(live.pop(sch.randrange(len(live))))
            j = sch.randrange(len(active))
            history.append(active[j].pop(0))
            if not active[j]:
                active.pop(j)
    # environment knobs
    out = []
    for a in history:
        if sch.random() < p_gc:
            out.append(["gc", sch.choice(["collect", "disable", "enable"])])
        if sch.random() < p_gc:
            out.append(["junk", sch.choice([10, 1000, 50000])])
        out.append(a)
    if cfg.get("allow_env") and kn.random() < 0.5:
        pos = kn.randrange(len(out) + 1)
        out.insert(pos, ["env", kn.choice(cfg["allow_env"])])
    if cfg.get("env_windows") and kn.random() < 0.6:
        # a formatter fault that comes and goes: what is requested after it is gone must not remember it
        if kn.random() < 0.5:
            # ... present from the very start of the process (so that the FIRST use of the formatter meets it) and
            # gone somewhere in the first half of the history
            pos, span = 0, kn.randint(4, max(5, len(out) // 2))
        else:
            pos, span = kn.randrange(len(out) + 1), kn.randint(1, 8)
        out.insert(pos, ["env", kn.choice(cfg["env_windows"])])
        out.insert(min(len(out), pos + 1 + span), ["env", "reset"])
    return out


def solo_history(req, rec):
    """The same request made alone on a fresh context, no faults (the control of the differential check
    used for generated programs)."""
    params = req.get("params")
    acts = [["ctx", "c0", req["target"]] + ([params, "ctor"] if params else []),
            ["trace", "r0", "c0", req["target"], req["func"], list(req["sig"])]]
    key = rec["key"]
    debug = rec["debug"] if ":as=" not in key else 0
    if ":raw" in key:
        acts.append(["print", "r0", debug, "bg", "raw"])
    else:
        if req.get("raw_first"):
            acts.append(["print", "r0", 0, "bg", "raw"])
        acts += [["expand", "r0"] + (["top-down"] if req.get("topdown_expand") else []),
                 ["simplify", "r0"] + (["top-down"] if req.get("topdown_simplify") else []), ["print", "r0", debug, "bg"]]
    if ":as=" in key:
        acts.append(["reprint", "r0", key.split(":as=")[1], rec["debug"]])
    return acts


# ------------------------------------------------------------------ formatter environment faults

FAKE_BIN = os.path.join(os.path.dirname(os.path.abspath(__file__)), "fakebin")


class FaultEnv:
    """Crash-type faults on the file/subprocess seam of utils.format_cpp / format_python."""

    KINDS = ["clang_absent", "clang_exit1", "clang_killed", "clang_noisy", "clang_partial", "tmpdir_unwritable", "black_unimportable"]

    def __init__(self):
        self.saved_path = os.environ.get("PATH", "")
        self.saved_tmp = os.environ.get("TMPDIR")
        self.active = None
        self.fired = {}

    def apply(self, kind):
        import tempfile

        self.reset()
        self.active = kind
        if kind == "clang_absent":
            os.environ["PATH"] = os.path.join(FAKE_BIN, "empty") + ":/usr/bin:/bin"
        elif kind in ("clang_exit1", "clang_killed"):
            os.environ["FAKE_CLANG_FORMAT"] = kind
            os.environ["PATH"] = os.path.join(FAKE_BIN, "clang") + ":/usr/bin:/bin"
        elif kind in ("clang_noisy", "clang_partial"):
            # noisy: the formatter works, but writes a warning to stderr first;
            # partial: it dies with a non-zero status after writing half of its output
            import shutil

            real = shutil.which("clang-format", path=self.saved_path)
            if real is None:
                self.active = None
                return
            os.environ["REAL_CLANG_FORMAT"] = real
            os.environ["PATH"] = os.path.join(FAKE_BIN, kind[6:]) + ":" + self.saved_path
        elif kind == "tmpdir_unwritable":
            os.environ["TMPDIR"] = "/proc/nonexistent-dir-for-verif"
            tempfile.tempdir = "/proc/nonexistent-dir-for-verif"
        elif kind == "black_unimportable":
            self.saved_black = {k: v for k, v in sys.modules.items() if k == "black" or k.startswith("black.")}
            for k in self.saved_black:
                del sys.modules[k]
            sys.modules["black"] = None

    def reset(self):
        import tempfile

        os.environ["PATH"] = self.saved_path
        os.environ.pop("FAKE_CLANG_FORMAT", None)
        os.environ.pop("REAL_CLANG_FORMAT", None)
        if self.saved_tmp is None:
            os.environ.pop("TMPDIR", None)
        else:
            os.environ["TMPDIR"] = self.saved_tmp
        tempfile.tempdir = None
        if self.active == "black_unimportable":
            sys.modules.pop("black", None)
            sys.modules.update(getattr(self, "saved_black", {}))
        self.active = None


# ------------------------------------------------------------------ execution


def _ephemeral(f):
    import functools

    def call(ctx, *args, **kwargs):
        return f(ctx, *args, **kwargs)

    return functools.update_wrapper(call, f)


def _files_prefix():
    import functional_algorithms

    return os.path.dirname(os.path.abspath(functional_algorithms.__file__)) + os.sep


class Executor:
    """Runs a literal history; `on_text(req, text, graph, ctxinfo)` is called for every printed text."""

    def __init__(self, log, on_text=None, stats=None, probes=None, faults=None):
        import functional_algorithms as fa

        self.fa = fa
        self.log = log
        self.on_text = on_text
        self.stats = stats if stats is not None else {}
        self.probes = probes if probes is not None else {}
        self.faults = faults if faults is not None else {}
        self.ctxs = {}
        self.ctx_hist = {}  # cid -> list of request keys traced on it
        self.reqs = {}
        self.junk = []
        self.env = FaultEnv()
        self.prefix = _files_prefix()
        self.steps = 0
        self.outputs = []
        self.last_aborted = False
        self.tainted = set()
        self.failed_ctx = set()  # contexts on which some request failed half-way (for whatever reason)
        self.ctx_params = {}
        self.pos = 0

    def bump(self, d, k, n=1):
        d[k] = d.get(k, 0) + n

    def tmp_counter(self):
        try:
            from functional_algorithms.expr import make_symbol

            return make_symbol.__defaults__[0][0]
        except Exception:
            return None

    def with_fault(self, k, fn):
        count = [0]
        prefix = self.prefix

        def local(frame, event, arg):
            if event == "line":
                count[0] += 1
                if count[0] == k:
                    rel = frame.f_code.co_filename[len(prefix):]
                    self.bump(self.faults, "injected_fault_in:" + rel)
                    self.log.ev("fault", rel, frame.f_code.co_name)
                    raise InjectedFault()
            return local

        def glob(frame, event, arg):
            if event == "call" and count[0] < k and frame.f_code.co_filename.startswith(prefix):
                return local
            return None

        old = sys.gettrace()
        sys.settrace(glob)
        try:
            return fn()
        finally:
            sys.settrace(old)

    def run(self, history):
        try:
            for i, a in enumerate(history):
                self.pos = i
                self.action(a)
        finally:
            self.env.reset()
            gc.enable()

    def action(self, a, fault=None):
        self.steps += 1
        op = a[0]
        if op == "fault":
            return self.action(a[2], fault=a[1])
        if op == "deep":
            # the same action issued from `depth` extra Python frames: how much interpreter stack is left is an
            # input nobody passes explicitly (a RecursionError is a failed request, like any other exception)
            def down(n):
                if n <= 0:
                    return self.action(a[2], fault)
                return down(n - 1)

            self.bump(self.probes, "request_step_issued_from_a_deep_stack")
            try:
                return down(a[1])
            except RecursionError:
                # ran out of stack in the harness' own frames or in the package: a failed request
                inner = a[2][2] if a[2][0] == "fault" else a[2]
                req = self.reqs.get(inner[1]) if len(inner) > 1 else None
                if req is not None:
                    req["stage"] = "dead"
                    self.failed_ctx.add(req["cid"])
                self.bump(self.stats, "deep_request_ran_out_of_stack")
                return None
        fa = self.fa
        self.log.ev("act", op, a[1] if len(a) > 1 and isinstance(a[1], (str, int)) else None)
        if op == "ctx":
            params = a[3] if len(a) > 3 else None
            how = a[4] if len(a) > 4 else "ctor"
            ctx, post = make_context(fa, a[2], params, how)
            if post:
                self.bump(self.probes, "context_parameters_assigned_after_construction")
            if params and params.get("__paths__"):
                self.bump(self.probes, "context_with_user_overrides_before_algorithms")
            self.ctxs[a[1]] = ctx
            self.ctx_hist[a[1]] = []
            self.ctx_params[a[1]] = dict(params) if params else None
            return
        if op == "gc":
            getattr(gc, a[1])()
            self.bump(self.stats, "gc_" + a[1])
            return
        if op == "junk":
            self.junk.append([object() for _ in range(a[1])])
            if len(self.junk) > 4:
                self.junk.pop(0)
            self.bump(self.stats, "junk_allocations")
            return
        if op == "drop":
            cid = a[1]
            self.ctxs.pop(cid, None)
            self.ctx_hist.pop(cid, None)
            self.ctx_params.pop(cid, None)
            for rid in [r for r, q in self.reqs.items() if q["cid"] == cid]:
                del self.reqs[rid]
            gc.collect()
            self.bump(self.stats, "contexts_dropped")
            return
        if op == "env" and a[1] == "reset":
            self.env.reset()
            self.bump(self.stats, "env_fault_window_closed")
            return
        if op == "race":
            return self.race(a[1], a[2])
        if op == "env":
            self.env.apply(a[1])
            self.bump(self.faults, "env:" + a[1])
            return
        if op == "trace":
            _, rid, cid, target, func, sig = a
            ctx = self.ctxs.get(cid)
            if ctx is None:
                ctx = self.ctxs[cid] = fa.Context(paths=[fa.algorithms], **context_params(target))
                self.ctx_hist[cid] = []
            req = self.reqs[rid] = dict(rid=rid, cid=cid, target=target, func=func, sig=list(sig), g=None, stage="new", ctx=ctx,
                                        params=self.ctx_params.get(cid),
                                        prior=list(self.ctx_hist[cid]), interleaved=False)
            tkw = {}
            if (self.ctx_params.get(cid) or {}).get("__override_name__"):
                tkw["override_name"] = func.replace(":", "_") + "_renamed"
            f0 = get_func(fa, func)
            if int(hashlib.sha256(rid.encode()).hexdigest(), 16) % 2 == 0:
                # a short-lived callable (as a bound method, a closure or a lambda would be): same definition, same
                # signature, dies right after the trace, so its address is free for the next one
                f0 = _ephemeral(f0)
                self.bump(self.stats, "traced_through_a_short_lived_callable")
            fn = lambda: ctx.trace(f0, *decode_sig(sig), **tkw)  # noqa: E731
            self.guarded(req, "traced", fn, fault)
            if req["stage"] == "traced":
                self.ctx_hist[cid].append(req_key(req))
            return
        req = self.reqs.get(a[1])
        if req is None or req["stage"] in ("dead",):
            self.bump(self.stats, "skipped_steps_of_dead_requests")
            return
        tm = getattr(fa.targets, req["target"])
        g = req["g"]
        pipeline = (req.get("params") or {}).get("__pipeline__")
        if op == "expand":
            if req["stage"] not in ("traced", "printed_raw"):
                return
            if req["stage"] == "printed_raw":
                req["raw_first"] = True
                self.bump(self.probes, "printed_before_and_after_rewriting")
            if len(a) > 2 and a[2] == "top-down":
                self.bump(self.probes, "rewrite_with_deep_first_false")
                req["topdown"] = True
                req["topdown_expand"] = True
                self.guarded(req, "expanded", lambda: g.rewrite(tm, deep_first=False), fault)
            elif pipeline == "user":
                from .universe import user_modifier

                # judged absolutely (not against a solo baseline): the modifier introduces no constants of other types
                self.guarded(req, "expanded", lambda: g.rewrite(user_modifier, deep_first=False), fault)
            elif pipeline == "legacy":
                # what results/update.py calls: the deprecated aliases (they go through the warn-once cache)
                self.guarded(req, "expanded", lambda: g.implement_missing(tm), fault)
            elif pipeline == "combined":
                # what the tests call: both modifiers in one rewrite call
                self.guarded(req, "expanded", lambda: g.rewrite(tm, fa.rewrite), fault)
            else:
                self.guarded(req, "expanded", lambda: g.rewrite(tm), fault)
        elif op == "simplify":
            if req["stage"] != "expanded":
                return
            if len(a) > 2 and a[2] == "top-down":
                req["topdown"] = True
                req["topdown_simplify"] = True
                self.guarded(req, "simplified", lambda: g.rewrite(fa.rewrite, deep_first=False), fault)
            elif pipeline == "legacy":
                self.guarded(req, "simplified", lambda: g.simplify(), fault)
            elif pipeline in ("combined", "user"):
                req["stage"] = "simplified"  # already done by the combined call / not part of the user pipeline
            else:
                self.guarded(req, "simplified", lambda: g.rewrite(fa.rewrite), fault)
        elif op == "print":
            raw = len(a) > 4 and a[4] == "raw"
            if req["stage"] not in (("traced", "printed_raw") if raw else ("simplified", "printed")):
                return
            debug, tag = a[2], a[3]
            tmp_before = self.tmp_counter()
            box = []

            pkw, rename = print_options(req.get("params"), req["func"])

            def fn():
                if rename:
                    g.props.update(name=rename)
                box.append(g.tostring(tm, debug=debug, **pkw))
                return g

            self.guarded(req, "printed_raw" if raw else "printed", fn, fault)
            if box:
                text = box[0]
                if not isinstance(text, str):
                    raise TypeError("tostring returned %r" % type(text))
                req["prints"] = req.get("prints", 0) + 1
                rec = dict(key=req_key(req, debug) + (":raw" if raw else ""), tag=tag, rid=req["rid"], cid=req["cid"], prior=req["prior"],
                           rep=req["prints"], pos=self.pos, sha=hashlib.sha256(text.encode()).hexdigest(), env=self.env.active,
                           after_abort=self.last_aborted, tmp_counter=tmp_before, target=req["target"], debug=debug,
                           ctx_had_failure=req["cid"] in self.failed_ctx or req["cid"] in self.tainted)
                self.last_aborted = False
                if req.get("topdown"):
                    # rewritten top-down: part of the history of everything that follows, but its own text is a
                    # different (legal, never used) pipeline whose program-dimension quirks are not judged
                    rec["tag"] = "history-only"
                if req["func"].startswith("gen:"):
                    rec["req"] = dict(target=req["target"], func=req["func"], sig=req["sig"], params=req.get("params"))
                self.log.ev("text", rec["key"], rec["sha"][:16])
                if self.on_text is not None:
                    self.on_text(rec, text, req)
                else:
                    rec["text"] = text
                self.outputs.append(rec)
        elif op == "reprint":
            if req["stage"] not in ("simplified", "printed"):
                return
            _, rid, t2, debug = a
            tm2 = getattr(fa.targets, t2)
            box = []

            def fn2():
                box.append(g.tostring(tm2, debug=debug))
                return g

            try:
                self.with_fault(fault, fn2) if fault else fn2()
            except InjectedFault:
                self.tainted.add(req["cid"])
                self.bump(self.stats, "aborted_by_injected_fault")
            except Exception as e:
                # e.g. a kind or a dtype the other target does not know: no text, nothing to check
                self.bump(self.stats, "reprint_failed:" + type(e).__name__)
            if box and isinstance(box[0], str):
                rec = dict(key=req_key(req, debug) + ":as=" + t2, tag="history-only" if req.get("topdown") else "bg", rid=req["rid"], cid=req["cid"], prior=req["prior"],
                           rep=req.get("prints", 0) + 1, pos=self.pos, sha=hashlib.sha256(box[0].encode()).hexdigest(),
                           env=self.env.active, after_abort=False, tmp_counter=None, target=t2, debug=debug)
                self.bump(self.probes, "graph_printed_with_second_target")
                self.log.ev("text", rec["key"], rec["sha"][:16])
                if self.on_text is not None:
                    self.on_text(rec, box[0], req)
                else:
                    rec["text"] = box[0]
                self.outputs.append(rec)
        else:
            raise KeyError(op)

    def race(self, rids, schedule):
        """Print two simplified requests concurrently from two real threads; exactly one thread runs at a time and
        the schedule decides who continues at every line event inside utils.format_cpp."""
        import threading

        from ..fpusim.engine import Scheduler

        reqs = [self.reqs.get(r) for r in rids]
        if any(r is None or r["stage"] not in ("simplified", "printed") for r in reqs):
            self.bump(self.stats, "race_skipped_a_request_was_not_ready")
            return
        fa = self.fa
        sched = Scheduler(2, schedule, self.log)
        texts, errors = [None, None], [None, None]
        marker = os.path.join("functional_algorithms", "utils.py")

        def tracer_for(tid):
            def local(frame, event, arg):
                if event == "line":
                    sched.point(tid, "format_cpp")
                return local

            def glob(frame, event, arg):
                if frame.f_code.co_name == "format_cpp" and frame.f_code.co_filename.endswith(marker):
                    return local
                return None

            return glob

        def body(tid):
            sched.wait_turn(tid)
            sys.settrace(tracer_for(tid))
            try:
                tm = getattr(fa.targets, reqs[tid]["target"])
                texts[tid] = reqs[tid]["g"].tostring(tm, debug=0)
            except BaseException as e:
                errors[tid] = e
            finally:
                sys.settrace(None)
                sched.finish(tid)

        ths = [threading.Thread(target=body, args=(t,), daemon=True) for t in range(2)]
        for th in ths:
            th.start()
        sched.start()
        sched.done.acquire()
        for th in ths:
            th.join()
        self.bump(self.probes, "two_prints_raced_in_two_threads")
        self.bump(self.stats, "race_thread_switches_inside_format_cpp", sched.switches)
        for tid, req in enumerate(reqs):
            if errors[tid] is not None:
                if isinstance(errors[tid], OSError) and self.env.active is not None:
                    self.bump(self.faults, "io_error_under_env_fault:" + type(errors[tid]).__name__)
                else:
                    self.bump(self.stats, "raced_print_failed:" + type(errors[tid]).__name__)
                continue
            text = texts[tid]
            req["stage"] = "printed"
            req["prints"] = req.get("prints", 0) + 1
            rec = dict(key=req_key(req, 0) + ":raced", tag="bg", rid=req["rid"], cid=req["cid"], prior=req["prior"],
                       rep=req["prints"], pos=self.pos, sha=hashlib.sha256(text.encode()).hexdigest(), env=self.env.active,
                       after_abort=False, tmp_counter=None, target=req["target"], debug=0, ctx_had_failure=False)
            if req["func"].startswith("gen:"):
                rec["req"] = dict(target=req["target"], func=req["func"], sig=req["sig"], params=req.get("params"))
            self.log.ev("text", rec["key"], rec["sha"][:16])
            if self.on_text is not None:
                self.on_text(rec, text, req)
            else:
                rec["text"] = text
            self.outputs.append(rec)

    def guarded(self, req, stage, fn, fault):
        try:
            g = self.with_fault(fault, fn) if fault else fn()
            req["g"] = g
            req["stage"] = stage
            self.bump(self.stats, "step_ok:" + stage)
        except InjectedFault:
            req["stage"] = "dead"
            self.last_aborted = True
            self.tainted.add(req["cid"])
            self.bump(self.stats, "aborted_by_injected_fault")
            self.log.ev("aborted", req["rid"])
            # the half-finished call frame prefix would otherwise name everything that follows on this
            # context (see conssim note); a user continuing after Ctrl-C sees the same
        except NotImplementedError as e:
            req["stage"] = "dead"
            self.failed_ctx.add(req["cid"])
            self.last_aborted = True
            self.bump(self.faults, "aborted:NotImplementedError")
            self.log.ev("notimpl", req["rid"])
        except Exception as e:
            req["stage"] = "dead"
            self.failed_ctx.add(req["cid"])
            self.log.ev("failed", req["rid"], type(e).__name__)
            if isinstance(e, OSError) and self.env.active is not None:
                # a formatter / tmpdir fault may legitimately fail the request
                self.bump(self.faults, "io_error_under_env_fault:" + type(e).__name__)
            elif req["cid"] in self.tainted:
                # an earlier injected exception left this context half-updated (e.g. an expression
                # registered without its origin); a later request on it may fail -- loudly.  May fail,
                # never wrong data: whatever text *is* returned from such a context is still checked.
                self.bump(self.faults, "request_failed_on_fault_tainted_context:" + type(e).__name__)
            else:
                # no text was emitted, so the text oracles have nothing to say; reported, not flagged
                self.bump(self.probes, "request_crashed_on_clean_context:" + type(e).__name__)
