"""C06 oracle: StableHLO (.td pattern) and XLA-client (C++ builder) text, whatever the history of the
context it came from, parses back into an operator tree isomorphic to the printed graph, and every
named value is bound exactly once before it is referenced."""

import re
import struct
import warnings

from ..core.log import EventLog, digest_of
from ..core.seeds import stream
from . import cppparse, history as H, interp as I
from .c05 import refs_of_graph, tree_equivalent
from .engine import GenEngineBase

# ---- operator tables written from the StableHLO / CHLO dialect and XLA client builder documentation

HLO_OPS = {
    "absolute": "StableHLO_AbsOp", "negative": "StableHLO_NegOp", "add": "StableHLO_AddOp", "subtract": "StableHLO_SubtractOp",
    "multiply": "StableHLO_MulOp", "divide": "StableHLO_DivOp", "maximum": "StableHLO_MaxOp", "minimum": "StableHLO_MinOp",
    "sqrt": "StableHLO_SqrtOp", "log": "StableHLO_LogOp", "log1p": "StableHLO_Log1pOp", "exp": "StableHLO_ExpOp",
    "expm1": "StableHLO_Expm1Op", "sin": "StableHLO_SineOp", "cos": "StableHLO_CosineOp", "atan2": "StableHLO_Atan2Op",
    "real": "StableHLO_RealOp", "imag": "StableHLO_ImagOp", "complex": "StableHLO_ComplexOp", "select": "StableHLO_SelectOp",
    "logical_and": "StableHLO_AndOp", "logical_or": "StableHLO_OrOp", "logical_not": "StableHLO_NotOp", "logical_xor": "StableHLO_XorOp",
    "sign": "StableHLO_SignOp", "is_finite": "StableHLO_IsFiniteOp", "atanh": "CHLO_AtanhOp", "atan": "CHLO_AtanOp",
    "asin": "CHLO_AsinOp", "acos": "CHLO_AcosOp", "asinh": "CHLO_AsinhOp", "acosh": "CHLO_AcoshOp",
    "asin_acos_kernel": "CHLO_AsinAcosKernelOp", "nextafter": "CHLO_NextAfterOp",
    "bitwise_left_shift": "StableHLO_ShiftLeftOp", "bitwise_right_shift": "StableHLO_ShiftRightArithmeticOp",
}
HLO_NAMED = {"largest": "StableHLO_ConstantLikeMaxFiniteValue", "smallest": "StableHLO_ConstantLikeSmallestNormalizedValue",
             "posinf": "StableHLO_ConstantLikePosInfValue", "neginf": "StableHLO_ConstantLikeNegInfValue"}
COMPARE = {"lt": "LT", "le": "LE", "gt": "GT", "ge": "GE", "eq": "EQ", "ne": "NE"}

XLA_OPS = {
    "absolute": "Abs", "negative": "Neg", "add": "Add", "subtract": "Sub", "multiply": "Mul", "divide": "Div",
    "maximum": "Max", "minimum": "Min", "sqrt": "Sqrt", "log": "Log", "log1p": "Log1p", "exp": "Exp", "expm1": "Expm1",
    "sin": "Sin", "cos": "Cos", "tan": "Tan", "tanh": "Tanh", "atan2": "Atan2", "real": "Real", "imag": "Imag", "complex": "Complex",
    "select": "Select", "logical_and": "And", "logical_or": "Or", "logical_not": "Not", "logical_xor": "Xor", "sign": "Sign",
    "is_finite": "IsFinite", "lt": "Lt", "le": "Le", "gt": "Gt", "ge": "Ge", "eq": "Eq", "ne": "Ne", "square": "Square",
    "atanh": "Atanh", "atan": "Atan", "asin": "Asin", "acos": "Acos", "asinh": "Asinh", "acosh": "Acosh", "pow": "Pow",
    "remainder": "Rem", "is_inf": "IsInf", "is_nan": "IsNan", "nextafter": "NextAfter",
}
CPP_BIN = {"add": "+", "subtract": "-", "multiply": "*", "divide": "/", "lt": "<", "le": "<=", "gt": ">", "ge": ">=", "eq": "==",
           "ne": "!=", "logical_and": "&&", "logical_or": "||"}
CPP_CALL = {"sqrt": "std::sqrt", "log": "std::log", "log1p": "std::log1p", "exp": "std::exp", "absolute": "std::abs",
            "log2": "std::log2", "log10": "std::log10", "maximum": "std::max", "minimum": "std::min"}
CPP_LIMITS = {"largest": "max", "smallest": "min", "posinf": "infinity"}


class Unknown(Exception):
    """The oracle does not know this construct: counted, never flagged."""


# ------------------------------------------------------------------ .td reader


class TdError(Exception):
    pass


TD_TOKEN = re.compile(r"""\s+|//[^\n]*|(?P<tok>\$[A-Za-z_][A-Za-z_0-9]*|[A-Za-z_][A-Za-z_0-9]*(?:<"[^"]*">)?|[():,<>;])""")


def td_tokens(text):
    out = []
    pos = 0
    while pos < len(text):
        m = TD_TOKEN.match(text, pos)
        if not m:
            raise TdError("cannot tokenize at %r" % text[pos : pos + 30])
        pos = m.end()
        if m.group("tok"):
            out.append(m.group("tok"))
    return out


def td_parse(text):
    """def NAME? : Pat<(source), (result)>;  ->  (source_node, result_node);  node = (head, bind, [args]) | "$name" """
    t = td_tokens(text)
    i = [0]

    def eat(v=None):
        if i[0] >= len(t) or (v is not None and t[i[0]] != v):
            raise TdError("expected %r got %r at %d" % (v, t[i[0]] if i[0] < len(t) else None, i[0]))
        i[0] += 1
        return t[i[0] - 1]

    def node():
        tok = eat()
        if tok.startswith("$"):
            return tok
        if tok != "(":
            # bare atom, possibly `Type:$name`
            if i[0] < len(t) and t[i[0]] == ":":
                eat(":")
                return (tok, eat(), [])
            return (tok, None, [])
        head = eat()
        bind = None
        if t[i[0]] == ":":
            eat(":")
            bind = eat()
            if not bind.startswith("$"):
                raise TdError("binding name expected")
        args = []
        while t[i[0]] != ")":
            args.append(node())
            if t[i[0]] == ",":
                eat(",")
        eat(")")
        return (head, bind, args)

    eat("def")
    if t[i[0]] != ":":
        eat()
    eat(":")
    eat("Pat")
    eat("<")
    src = node()
    eat(",")
    res = node()
    eat(">")
    eat(";")
    if i[0] != len(t):
        raise TdError("trailing tokens")
    return src, res


def float_matches(text, value):
    """Does the printed literal denote exactly this value (bit-for-bit as a double)?"""
    try:
        x = float(text)
    except ValueError:
        return False
    if isinstance(value, bool):
        return False
    if isinstance(value, int):
        return x == value
    try:
        v = float(value)
    except (TypeError, ValueError):
        return False
    if v != v:
        return x != x
    return struct.pack("<d", x) == struct.pack("<d", v)


class Iso:
    """Shared bookkeeping of the two isomorphism checkers."""

    def __init__(self, g, Expr):
        self.g = g
        self.Expr = Expr
        self.bound = {}
        self.errors = []
        self.memo = {}
        self.nodes = 0
        self.refs = refs_of_graph(g, Expr)

    def err(self, what, **kw):
        if len(self.errors) < 5:
            self.errors.append((what, kw))

    def same_type(self, a, b):
        try:
            return str(a.get_type()) == str(b.get_type())
        except Exception:
            raise Unknown("type of like operand")


class HloIso(Iso):
    def check_pattern(self, src, res):
        g = self.g
        params = g.operands[1:-1]
        head, bind, args = src
        if len(args) != len(params):
            self.err("source-arity", expected=len(params), got=len(args))
            return
        for a, p in zip(args, params):
            if not isinstance(a, tuple) or a[1] is None:
                self.err("source-argument-unnamed", arg=str(a))
                continue
            want = "ComplexElementType" if p.is_complex else "NonComplexElementType"
            if a[0] != want:
                self.err("source-argument-type", name=a[1], expected=want, got=a[0])
            if a[1] in self.bound:
                self.err("bound-twice", name=a[1])
            self.bound[a[1]] = p
        self.match(res, g.operands[-1])

    def match(self, node, e):
        self.nodes += 1
        Expr = self.Expr
        if isinstance(node, str):
            name = node
            if name not in self.bound:
                self.err("reference-before-binding", name=name)
                return
            if not tree_equivalent(self.bound[name], e, Expr, self.memo):
                self.err("reference-to-other-value", name=name, bound_kind=self.bound[name].kind, operand_kind=e.kind)
            return
        head, bind, args = node
        if e.kind == "symbol":
            self.err("operator-where-symbol", head=head, symbol=str(e.operands[0]))
            return
        if bind is not None:
            if bind in self.bound:
                self.err("bound-twice", name=bind)
            self.bound[bind] = e
        k = e.kind
        if k == "constant":
            value, like = e.operands
            if isinstance(value, Expr):
                raise Unknown("alt-context constant in stablehlo")
            if isinstance(value, str):
                if value == "pi":
                    ok = head == 'StableHLO_ConstantLike<"M_PI">'
                elif value in HLO_NAMED:
                    ok = head == HLO_NAMED[value]
                else:
                    raise Unknown("named constant " + value)
                if not ok:
                    self.err("named-constant", constant=value, got=head)
            else:
                m = re.fullmatch(r'StableHLO_ConstantLike<"([^"]*)">', head)
                if not m:
                    self.err("constant-operator", got=head, value=repr(value))
                elif not float_matches(m.group(1), value):
                    self.err("constant-value", printed=m.group(1), value=repr(value))
            if len(args) != 1:
                self.err("constant-arity", got=len(args))
                return
            a = args[0]
            if isinstance(a, str):
                if a not in self.bound:
                    self.err("constant-attached-to-unbound", name=a)
                elif not self.same_type(self.bound[a], like):
                    self.err("constant-attached-to-wrong-type", name=a, like_type=str(like.get_type()), operand_type=str(self.bound[a].get_type()))
            else:
                self.match(a, like)
            return
        if k in COMPARE:
            if head != "StableHLO_CompareOp":
                self.err("operator", kind=k, expected="StableHLO_CompareOp", got=head)
                return
            if len(args) != 4:
                self.err("compare-arity", got=len(args))
                return
            self.match(args[0], e.operands[0])
            self.match(args[1], e.operands[1])
            want = 'StableHLO_ComparisonDirectionValue<"%s">' % COMPARE[k]
            if not isinstance(args[2], tuple) or args[2][0] != want:
                self.err("comparison-direction", kind=k, expected=want, got=str(args[2]))
            return
        if k not in HLO_OPS:
            raise Unknown("kind " + k)
        if head != HLO_OPS[k]:
            self.err("operator", kind=k, expected=HLO_OPS[k], got=head)
            return
        ops = [o for o in e.operands]
        if len(args) != len(ops):
            self.err("arity", kind=k, expected=len(ops), got=len(args))
            return
        for a, o in zip(args, ops):
            self.match(a, o)


class XlaIso(Iso):
    def __init__(self, g, Expr, fn):
        super().__init__(g, Expr)
        self.fn = fn
        self.stmts = {}
        self.order = {}
        for i, (ty, name, ast) in enumerate(fn["stmts"]):
            self.stmts.setdefault(name, ast)
            self.order[name] = i
        self.params = {}
        self.tparams = set(fn["template"])

    def check_function(self):
        g = self.g
        params = g.operands[1:-1]
        if len(params) != len(self.fn["params"]):
            self.err("parameter-count", expected=len(params), got=len(self.fn["params"]))
            return
        for (ty, name), p in zip(self.fn["params"], params):
            self.bound[name] = p
        self.match(self.fn["ret"], g.operands[-1])

    def match(self, ast, e):
        self.nodes += 1
        Expr = self.Expr
        if ast[0] == "id":
            name = ast[1]
            if name in self.bound:
                if not tree_equivalent(self.bound[name], e, Expr, self.memo):
                    self.err("reference-to-other-value", name=name, bound_kind=self.bound[name].kind, operand_kind=e.kind)
                return
            if name not in self.stmts:
                self.err("reference-to-unbound", name=name)
                return
            self.bound[name] = e
            self.match(self.stmts[name], e)
            return
        if e.kind == "symbol":
            self.err("operator-where-symbol", symbol=str(e.operands[0]))
            return
        k = e.kind
        if k == "constant":
            value, like = e.operands
            if ast[0] != "call" or ast[1] != "ScalarLike" or len(ast[2]) != 2:
                self.err("constant-operator", got=str(ast[:2]))
                return
            a0 = ast[2][0]
            if a0[0] != "id":
                self.match(a0, like)
            else:
                name = a0[1]
                cands = self.refs.get(name, [])
                if name in self.bound:
                    cands = [self.bound[name]]
                if not cands and name not in self.stmts:
                    self.err("constant-attached-to-unbound", name=name)
                elif cands and not any(self.same_type(c, like) for c in cands):
                    self.err("constant-attached-to-wrong-type", name=name, like_type=str(like.get_type()))
            self.match_cpp(ast[2][1], value)
            return
        if k == "positive":
            raise Unknown("positive")
        if k not in XLA_OPS:
            raise Unknown("kind " + k)
        if ast[0] != "call" or ast[1] != XLA_OPS[k]:
            self.err("operator", kind=k, expected=XLA_OPS[k], got=str(ast[1]) if ast[0] == "call" else ast[0])
            return
        if len(ast[2]) != len(e.operands):
            self.err("arity", kind=k, expected=len(e.operands), got=len(ast[2]))
            return
        for a, o in zip(ast[2], e.operands):
            self.match(a, o)

    # constants of the alternative context, printed through the C++ templates
    def match_cpp(self, ast, v):
        Expr = self.Expr
        self.nodes += 1
        if ast[0] == "id" and ast[1] in self.stmts and ast[1] not in self.tparams:
            key = ("cpp", ast[1])
            if key in self.bound:
                if self.bound[key] is not v and not _alt_equiv(self.bound[key], v, Expr):
                    self.err("reference-to-other-value", name=ast[1])
                return
            self.bound[key] = v
            return self.match_cpp(self.stmts[ast[1]], v)
        if not isinstance(v, Expr):
            # a plain number
            if isinstance(v, str):
                raise Unknown("plain named constant")
            neg = False
            a = ast
            while a[0] == "unop" and a[1] in "+-":
                neg ^= a[1] == "-"
                a = a[2]
            if isinstance(v, float) and v in (float("inf"), -float("inf")):
                # a literal infinity has no C++ literal: std::numeric_limits<T>::infinity(), negated for -inf
                ok = a[0] == "tcall" and a[1] == "std::numeric_limits" and a[3] == "infinity" and neg == (v < 0)
                if not ok:
                    self.err("constant-value", value=repr(v), printed=str(a)[:80])
                return
            if a[0] != "num" or not float_matches(("-" if neg else "") + a[1].rstrip("fFlL"), v):
                self.err("constant-value", value=repr(v), printed=str(a))
            return
        k = v.kind
        if k == "constant":
            value = v.operands[0]
            if isinstance(value, str):
                if value == "pi":
                    if ast != ("id", "M_PI"):
                        self.err("named-constant", constant=value, got=str(ast))
                    return
                if value == "neginf":
                    if ast[0] != "unop" or ast[1] != "-":
                        self.err("named-constant", constant=value, got=str(ast)[:80])
                        return
                    ast, value = ast[2], "posinf"
                if value not in CPP_LIMITS:
                    raise Unknown("named constant " + value)
                if ast[0] != "tcall" or ast[1] != "std::numeric_limits" or ast[3] != CPP_LIMITS[value]:
                    self.err("named-constant", constant=value, got=str(ast)[:80])
                return
            return self.match_cpp(ast, value)
        if k == "symbol":
            raise Unknown("symbol in alt context")
        if k == "select":
            if ast[0] != "ternary":
                self.err("operator", kind=k, expected="?:", got=ast[0])
                return
            for a, o in zip(ast[1:], v.operands):
                self.match_cpp(a, o)
            return
        if k == "negative":
            if ast[0] != "unop" or ast[1] != "-":
                self.err("operator", kind=k, expected="unary -", got=str(ast[:2]))
                return
            return self.match_cpp(ast[2], v.operands[0])
        if k in CPP_BIN:
            if ast[0] != "binop" or ast[1] != CPP_BIN[k]:
                self.err("operator", kind=k, expected=CPP_BIN[k], got=str(ast[:2]))
                return
            self.match_cpp(ast[2], v.operands[0])
            self.match_cpp(ast[3], v.operands[1])
            return
        if k in CPP_CALL:
            if ast[0] != "call" or ast[1] != CPP_CALL[k] or len(ast[2]) != len(v.operands):
                self.err("operator", kind=k, expected=CPP_CALL[k], got=str(ast[:2]))
                return
            for a, o in zip(ast[2], v.operands):
                self.match_cpp(a, o)
            return
        raise Unknown("alt kind " + k)


def _alt_equiv(a, b, Expr):
    from .c05 import tree_equivalent_any

    if isinstance(a, Expr) and isinstance(b, Expr):
        return tree_equivalent_any(a, b, Expr, {})
    return type(a) is type(b) and I.canon_result(a) == I.canon_result(b)


class Oracle:
    def __init__(self, case, Expr, fa):
        self.case = case
        self.Expr = Expr
        self.fa = fa
        self.violations = []
        self.stats = {}
        self.probes = {}
        self.is_baseline = False
        self.baseline = {}
        self.states = set()

    def bump(self, d, k, n=1):
        d[k] = d.get(k, 0) + n

    def run_baseline(self, req, rec):
        o2 = type(self)(self.case, self.Expr, self.fa)
        o2.is_baseline = True
        ex = H.Executor(EventLog(keep=False), o2.on_text, {}, {}, {})
        ex.run(H.solo_history(req, rec))
        return set("%s|%s" % (v["cls"], v["key"]) for v in o2.violations)

    def violation(self, cls, key, rec, **detail):
        key = key + "|" + rec["key"].split(":")[1]  # the function: a finding about one program never hides another's
        detail.update(request=rec["key"], position=rec["pos"], prior_on_context=rec["prior"][-4:], env=rec["env"], rep=rec["rep"])
        if not any(v["cls"] == cls and v["key"] == key for v in self.violations):
            self.violations.append({"cls": cls, "key": key, "detail": detail})

    def on_text(self, rec, text, req):
        t = rec["target"]
        if t not in ("stablehlo", "xla_client"):
            return
        g = req["g"]
        if (req["func"].startswith("gen:") or req.get("topdown")) and not self.is_baseline:
            # generated programs, and requests rewritten top-down (deep_first=False), are judged differentially:
            # flagged only if the same request with the same pipeline, made alone on a fresh context without
            # faults, passes the same oracle (program-dimension defects are not claimed)
            if rec["key"] not in self.baseline:
                self.baseline[rec["key"]] = self.run_baseline(req, rec)
            if self.baseline[rec["key"]]:
                self.bump(self.stats, "generated_program_fails_alone")
                self.bump(self.stats, "fails_alone:" + sorted(self.baseline[rec["key"]])[0][:60])
                return
            self.bump(self.stats, "generated_program_texts_checked")
        self.bump(self.stats, "texts:" + t)
        if rec["prior"]:
            self.bump(self.probes, "text_from_context_with_history")
        if rec["env"]:
            self.bump(self.probes, "text_under_env_fault:" + rec["env"])
        self.states.add(digest_of([rec["key"], rec["prior"], rec["env"]])[:12])
        try:
            if t == "stablehlo":
                self.check_hlo(rec, text, g)
            else:
                self.check_xla(rec, text, g)
        except Unknown as e:
            self.bump(self.stats, "unknown_construct:" + t)
            self.bump(self.stats, "unknown:" + str(e)[:40])

    def check_hlo(self, rec, text, g):
        try:
            src, res = td_parse(text)
        except (TdError, IndexError) as e:
            self.violation("parse", "stablehlo|unparsable", rec, error=str(e), text=text[:300])
            return
        iso = HloIso(g, self.Expr)
        iso.check_pattern(src, res)
        self.bump(self.stats, "nodes_matched:stablehlo", iso.nodes)
        for kind, kw in iso.errors:
            cls = "binding" if kind in ("reference-before-binding", "bound-twice", "constant-attached-to-unbound") else "isomorphism"
            self.violation(cls, "stablehlo|" + kind, rec, text=text[:400], **kw)

    def check_xla(self, rec, text, g):
        try:
            fn = cppparse.parse_function(text)
        except cppparse.CppParseError as e:
            self.violation("parse", "xla_client|unparsable", rec, error=str(e), text=text[:300])
            return
        for kind, name in cppparse.binding_errors(fn):
            self.violation("binding", "xla_client|" + kind, rec, name=name, text=text[:500])
        iso = XlaIso(g, self.Expr, fn)
        iso.check_function()
        self.bump(self.stats, "nodes_matched:xla_client", iso.nodes)
        for kind, kw in iso.errors:
            cls = "binding" if kind in ("reference-to-unbound", "constant-attached-to-unbound") else "isomorphism"
            self.violation(cls, "xla_client|" + kind, rec, text=text[:400], **kw)


class C06Engine(GenEngineBase):
    name = "gensim-c06"
    prop = "C06"
    timeout_s = 300.0
    min_cap = 120
    max_minimised = 3
    rule = (
        "seeded histories of generation requests for the stablehlo and xla_client targets (shipped trace_arguments "
        "plus naming-stress programs; python/cpp requests as background on the shared contexts), steps interleaved, "
        "fresh and shared contexts, aborted requests, exceptions injected at line granularity, formatter faults on the "
        "clang-format seam of xla_client; every emitted text is parsed back by an independent reader (.td S-expressions; "
        "C++ builder statements) and matched node by node against the printed graph: operator per kind, operand order, "
        "comparison direction, named constants, literal values bit-exact, constant attached to a bound operand of the "
        "constant's type, each name bound exactly once before use; distinct = (request, prior requests on its context, "
        "fault environment) triples; non-trivial = at least three texts matched, one from a context with history"
    )
    state_measure = "distinct (request key, list of requests traced earlier on the same context, formatter fault) triples"
    components = {
        "real": ["functional_algorithms tracing, rewriting, printing (stablehlo printer, xla_client printer with cpp constant printer, alternative constant context)",
                 "real clang-format except under injected formatter faults"],
        "stub": ["clang-format replaced by a failing fake on PATH under F3 faults"],
    }
    assumptions = [
        "scope: histories x faults x (shipped + naming-stress programs); seeded generated programs draw on ~30 operation kinds and are judged against the same request made alone; programs over every kind are not explored",
        "a reference to a name is accepted when the expression bound to it is tree-equivalent to the operand it stands for",
        "operator tables for ~40 kinds written from the dialect documentation; other kinds are counted as unknown, not flagged",
    ]

    def preload(self):
        self.preload_common()

    def tier_cfg(self, tier):
        if tier == "quick":
            return {"episodes": 1000}
        return {"episodes": None, "budget_s": 900.0, "min_episodes": 1000}

    def make_case(self, seed, tier="quick"):
        kn = stream(seed, "interp")
        faulty = kn.random() < 0.4
        cfg = dict(targets=["stablehlo", "xla_client", "xla_client", "stablehlo", "cpp", "python"], n_requests=24 if tier == "quick" else 40,
                   allow_faults=True, shared=True, p_shared_choices=[0.3, 0.6, 0.9],
                   allow_env=["clang_absent", "clang_exit1", "clang_killed", "clang_noisy", "clang_noisy", "clang_partial", "clang_partial", "tmpdir_unwritable"] if faulty else None,
                   reprint_targets=["stablehlo", "python", "cpp"], generated_programs=0.35, races=0.5, scenarios=0.4, variant_pairs=0.3)
        return {"seed": seed, "hashseed": None, "history": H.gen_history(seed, self.universe, cfg)}

    def run_case(self, case):
        warnings.simplefilter("ignore")
        fa = self.fa
        log = EventLog(keep=False)
        log.ev("seed", case.get("seed"))
        orc = Oracle(case, fa.Expr, fa)
        faults = {}
        ex = H.Executor(log, orc.on_text, orc.stats, orc.probes, faults)
        ex.run(case["history"])
        texts = sum(v for k, v in orc.stats.items() if k.startswith("texts:"))
        for v in orc.violations:
            log.ev("VIOLATION", v["cls"], v["key"])
        hist = case["history"]
        return {
            "case": case,
            "digest": log.digest(),
            "violations": orc.violations,
            "stats": orc.stats,
            "probes": orc.probes,
            "faults": faults,
            "states": sorted(orc.states),
            "steps": ex.steps,
            "case_digest": digest_of(hist)[:16],
            "nontrivial": texts >= 3 and orc.probes.get("text_from_context_with_history", 0) >= 1,
            "sample": {"n_actions": len(hist), "history_first_actions": hist[:14], "texts_checked": texts},
        }

    def after_batch(self, agg, tier, master):
        c = agg.counters
        return {"texts_checked": sum(v for k, v in c.items() if k.startswith("stats.texts:")),
                "nodes_matched": sum(v for k, v in c.items() if k.startswith("stats.nodes_matched:")),
                "programs": len(self.universe)}
