"""A small reader for the C++ that the cpp and xla_client targets emit.

parse_function(text) -> dict(template=[...], rtype=str, name=str, params=[(type, name)],
                             stmts=[(type, name, ast)], ret=ast)
AST nodes:
  ("id", name)            ("num", text)              ("call", callee, [args])  callee is a dotted/qualified name
  ("unop", op, x)         ("binop", op, l, r)        ("ternary", c, a, b)
  ("method", obj, name, [args])                      e.g. (z).real()
  ("tcall", name, targ, member, [args])              e.g. std::numeric_limits<double>::infinity(), std::complex<double>(a, b)
"""

import re


class CppParseError(Exception):
    pass


TOKEN = re.compile(
    r"""
    (?P<ws>\s+|//[^\n]*|/\*.*?\*/)
  | (?P<num>(?:0[xX][0-9a-fA-F]+|(?:\d+\.?\d*(?:[eE][-+]?\d+)?|\.\d+(?:[eE][-+]?\d+)?))[fFlLuU]*)
  | (?P<id>[A-Za-z_][A-Za-z_0-9]*(?:::[A-Za-z_][A-Za-z_0-9]*)*)
  | (?P<op>==|!=|<=|>=|&&|\|\||<<|>>|::|[-+*/%<>=!~&|^?:,;(){}\[\].])
    """,
    re.X | re.S,
)


def tokenize(text):
    out = []
    pos = 0
    while pos < len(text):
        m = TOKEN.match(text, pos)
        if not m:
            raise CppParseError("cannot tokenize at %r" % text[pos : pos + 30])
        pos = m.end()
        if m.lastgroup == "ws":
            continue
        out.append((m.lastgroup, m.group(m.lastgroup)))
    return out


TEMPLATED = {"std::complex", "std::numeric_limits"}

BINOPS = [
    ("||",),
    ("&&",),
    ("|",),
    ("^",),
    ("&",),
    ("==", "!="),
    ("<", "<=", ">", ">="),
    ("<<", ">>"),
    ("+", "-"),
    ("*", "/", "%"),
]


class Parser:
    def __init__(self, toks):
        self.t = toks
        self.i = 0

    def peek(self, k=0):
        return self.t[self.i + k] if self.i + k < len(self.t) else (None, None)

    def eat(self, val=None):
        tok = self.peek()
        if tok[0] is None or (val is not None and tok[1] != val):
            raise CppParseError("expected %r, got %r at token %d" % (val, tok[1], self.i))
        self.i += 1
        return tok

    def type_name(self):
        """Parse a type: qualified id optionally followed by <type>."""
        kind, name = self.eat()
        if kind != "id":
            raise CppParseError("type expected, got %r" % name)
        if self.peek()[1] == "<":
            self.eat("<")
            inner = self.type_name()
            self.eat(">")
            return "%s<%s>" % (name, inner)
        return name

    def expr(self):
        return self.ternary()

    def ternary(self):
        c = self.binary(0)
        if self.peek()[1] == "?":
            self.eat("?")
            a = self.expr()
            self.eat(":")
            b = self.expr()
            return ("ternary", c, a, b)
        return c

    def binary(self, level):
        if level == len(BINOPS):
            return self.unary()
        left = self.binary(level + 1)
        while self.peek()[0] == "op" and self.peek()[1] in BINOPS[level]:
            op = self.eat()[1]
            right = self.binary(level + 1)
            left = ("binop", op, left, right)
        return left

    def unary(self):
        if self.peek()[0] == "op" and self.peek()[1] in ("-", "+", "!", "~"):
            op = self.eat()[1]
            return ("unop", op, self.unary())
        return self.postfix()

    def args(self):
        self.eat("(")
        out = []
        if self.peek()[1] != ")":
            out.append(self.expr())
            while self.peek()[1] == ",":
                self.eat(",")
                out.append(self.expr())
        self.eat(")")
        return out

    def postfix(self):
        node = self.primary()
        while self.peek()[1] == ".":
            self.eat(".")
            kind, name = self.eat()
            if kind != "id":
                raise CppParseError("member name expected")
            a = self.args() if self.peek()[1] == "(" else None
            node = ("method", node, name, a)
        return node

    def primary(self):
        kind, val = self.peek()
        if kind == "num":
            self.eat()
            return ("num", val)
        if kind == "id":
            self.eat()
            if val in TEMPLATED and self.peek()[1] == "<":
                self.eat("<")
                targ = self.type_name()
                self.eat(">")
                member = None
                if self.peek()[1] == "::":
                    self.eat("::")
                    member = self.eat()[1]
                a = self.args() if self.peek()[1] == "(" else None
                return ("tcall", val, targ, member, a)
            if self.peek()[1] == "(":
                return ("call", val, self.args())
            return ("id", val)
        if val == "(":
            self.eat("(")
            e = self.expr()
            self.eat(")")
            return e
        raise CppParseError("unexpected token %r at %d" % (val, self.i))


def parse_function(text):
    toks = tokenize(text)
    p = Parser(toks)
    template = []
    if p.peek()[1] == "template":
        p.eat()
        p.eat("<")
        while p.peek()[1] != ">":
            k, v = p.eat()
            if k == "id" and v != "typename":
                template.append(v)
        p.eat(">")
    rtype = p.type_name()
    name = p.eat()[1]
    p.eat("(")
    params = []
    while p.peek()[1] != ")":
        ty = p.type_name()
        nm = p.eat()
        if nm[0] != "id":
            raise CppParseError("parameter name expected")
        params.append((ty, nm[1]))
        if p.peek()[1] == ",":
            p.eat(",")
    p.eat(")")
    p.eat("{")
    stmts = []
    ret = None
    while p.peek()[1] != "}":
        if p.peek()[1] == "return":
            p.eat()
            ret = p.expr()
            p.eat(";")
            continue
        if ret is not None:
            raise CppParseError("statement after return")
        ty = p.type_name()
        nm = p.eat()
        if nm[0] != "id":
            raise CppParseError("variable name expected, got %r" % (nm[1],))
        p.eat("=")
        e = p.expr()
        p.eat(";")
        stmts.append((ty, nm[1], e))
    p.eat("}")
    if p.peek()[0] is not None:
        raise CppParseError("trailing tokens after function")
    if ret is None:
        raise CppParseError("no return statement")
    return dict(template=template, rtype=rtype, name=name, params=params, stmts=stmts, ret=ret)


def idents(ast, out=None):
    """Plain identifiers used as values (not callee names)."""
    if out is None:
        out = []
    k = ast[0]
    if k == "id":
        out.append(ast[1])
    elif k == "num":
        pass
    elif k == "call":
        for a in ast[2]:
            idents(a, out)
    elif k == "unop":
        idents(ast[2], out)
    elif k == "binop":
        idents(ast[2], out)
        idents(ast[3], out)
    elif k == "ternary":
        for a in ast[1:]:
            idents(a, out)
    elif k == "method":
        idents(ast[1], out)
        for a in ast[3] or []:
            idents(a, out)
    elif k == "tcall":
        for a in ast[4] or []:
            idents(a, out)
    return out


KNOWN_VALUE_IDENTS = {"M_PI", "NAN", "INFINITY", "true", "false"}


def binding_errors(fn):
    """Every identifier used is a parameter, a template parameter or was assigned earlier; every
    variable is assigned exactly once.  Returns a list of (kind, name)."""
    errs = []
    defined = set(n for _, n in fn["params"])
    if len(defined) != len(fn["params"]):
        errs.append(("duplicate-parameter", ",".join(n for _, n in fn["params"])))
    tparams = set(fn["template"])
    assigned = set()
    for ty, name, e in fn["stmts"]:
        for u in idents(e):
            if u not in defined and u not in KNOWN_VALUE_IDENTS and u not in tparams:
                errs.append(("use-before-binding", u))
        if name in defined:
            errs.append(("assigned-twice" if name in assigned else "assigns-parameter", name))
        defined.add(name)
        assigned.add(name)
    for u in idents(fn["ret"]):
        if u not in defined and u not in KNOWN_VALUE_IDENTS and u not in tparams:
            errs.append(("use-before-binding", u))
    return errs
