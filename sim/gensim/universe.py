"""Request universe of the generation service: every (target, function, signature) in each
target's trace_arguments (read from the working tree at run time) plus naming-stress programs."""

TARGETS = ["python", "numpy", "stablehlo", "xla_client", "cpp"]


def context_params(target):
    """What results/update.py uses."""
    if target == "xla_client":
        return dict(enable_alt=True, default_constant_type="FloatType")
    return dict(enable_alt=False, default_constant_type=None)


# ---- naming-stress programs (arguments named like the algorithms' internal variables; the same
# ---- argument name at two types; a helper called twice so that the call counter matters)


def stress_internal_names(ctx, x, y):
    mx = ctx.maximum(abs(x), abs(y))
    mn = ctx.minimum(abs(x), abs(y))
    r = mn / mx
    z = mx * ctx.sqrt(1 + r * r)
    return ctx(z)


def _helper(ctx, z):
    # t and u are used twice, so both need a variable; the second call of _helper must rename them
    t = z * z
    u = t + z
    v = u * t + u
    return ctx(v)


def stress_call_twice(ctx, z):
    a = ctx.call(_helper, (z,))
    b = ctx.call(_helper, (a + 1,))
    result = a * b + a
    return ctx(result)


def stress_alias_locals(ctx, x, y):
    # two local names for one expression: which name becomes the variable must not depend on
    # anything but the definition
    first = x * y
    second = first
    s = first + second * x
    result = s * s
    return ctx(result)


def stress_signed_zero(ctx, x):
    # both zeros, each used more than once and none bound to a local name, so that the printers
    # have to invent variable names for them
    nz = ctx.constant(-0.0, x)
    r = ctx.select(x < 0.0, nz, ctx.constant(0.0, x)) + ctx.constant(-0.0, x) * x
    return r + ctx.constant(0.0, x) * x


def stress_shadow(ctx, x):
    # local names chosen to collide with names that library algorithms use internally
    one = ctx.constant(1, x)
    ax = abs(x)
    x2 = x * x
    result = ctx.select(ax > one, x2 + one, x2 - one)
    return ctx(result)


def stress_hypot_user(ctx, x, y):
    h = ctx.hypot(x, y)
    s = ctx.square(x)
    result = h + s
    return ctx(result)


STRESS = {
    "stress_internal_names": (stress_internal_names, 2),
    "stress_call_twice": (stress_call_twice, 1),
    "stress_shadow": (stress_shadow, 1),
    "stress_hypot_user": (stress_hypot_user, 2),
    "stress_alias_locals": (stress_alias_locals, 2),
    "stress_signed_zero": (stress_signed_zero, 1),
}
STRESS_SIGS = {
    "python": [":float"],
    "numpy": [":float32", ":float64"],
    "stablehlo": [":float"],
    "xla_client": [":float"],
    "cpp": [":float32", ":float64"],
}


def get_func(fa, name):
    if name in STRESS:
        return STRESS[name][0]
    return getattr(fa.algorithms, name)


def build_universe(fa):
    """List of request descriptors: dict(target, func, sig (list of str), sigidx)."""
    out = []
    for t in TARGETS:
        mod = getattr(fa.targets, t, None)
        ta = getattr(mod, "trace_arguments", None)
        if not isinstance(ta, dict):
            continue
        for func in sorted(ta):
            if not hasattr(fa.algorithms, func):
                continue
            for i, sig in enumerate(ta[func]):
                out.append(dict(target=t, func=func, sig=[s if isinstance(s, str) else s.__name__ for s in sig], sigidx=i))
        for name in sorted(STRESS):
            nargs = STRESS[name][1]
            for i, ty in enumerate(STRESS_SIGS[t]):
                out.append(dict(target=t, func=name, sig=[ty] * nargs, sigidx=i))
    return out


def req_key(r, debug=None):
    k = "%s:%s:%s" % (r["target"], r["func"], ",".join(r["sig"]))
    if debug is not None:
        k += ":debug=%d" % debug
    return k
