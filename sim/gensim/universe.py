"""Request universe of the generation service: every (target, function, signature) in each
target's trace_arguments (read from the working tree at run time) plus naming-stress programs."""

TARGETS = ["python", "numpy", "stablehlo", "xla_client", "cpp"]
TEXT_ONLY_TARGETS = ["lax"]  # no listed property is about their content; C09 covers their determinism


def context_params(target):
    """What results/update.py uses."""
    if target == "xla_client":
        return dict(enable_alt=True, default_constant_type="FloatType")
    return dict(enable_alt=False, default_constant_type=None)


# ---- naming-stress programs (arguments named like the algorithms' internal variables; the same
# ---- argument name at two types; a helper called twice so that the call counter matters)


def stress_internal_names(ctx, x, y):
    mx = ctx.maximum(abs(x), abs(y))
    mn = ctx.minimum(abs(x), abs(y))
    r = mn / mx
    z = mx * ctx.sqrt(1 + r * r)
    return ctx(z)


def _helper(ctx, z):
    # t and u are used twice, so both need a variable; the second call of _helper must rename them
    t = z * z
    u = t + z
    v = u * t + u
    return ctx(v)


def stress_call_twice(ctx, z):
    a = ctx.call(_helper, (z,))
    b = ctx.call(_helper, (a + 1,))
    result = a * b + a
    return ctx(result)


def stress_alias_locals(ctx, x, y):
    # two local names for one expression: which name becomes the variable must not depend on
    # anything but the definition
    first = x * y
    second = first
    s = first + second * x
    result = s * s
    return ctx(result)


def stress_signed_zero(ctx, x):
    # both zeros, each used more than once and none bound to a local name (no ctx(...) call), so that
    # the printers have to invent variable names for them; the sign of the result reveals which zero
    # was used (sums of zeros would hide it)
    r = ctx.select(x < 0.0, ctx.constant(-0.0, x), ctx.constant(0.0, x))
    s = ctx.select(x > 1.0, ctx.constant(-0.0, x), r)
    return s * (x * x + 1.0)


def _h1(ctx, x):
    t = x * x + x
    return ctx(t * t)


def _h2(ctx, x):
    t = x - 3
    return ctx(t * t + t)


def _two_helpers(ctx, x):
    a = _h1(ctx, x)
    b = _h2(ctx, x)
    r = a * b
    return ctx(r)


def stress_nested_helpers(ctx, x):
    # the name `t` is wanted three times: at top level and by two plain helper functions that run
    # inside one ctx.call frame (so both have the same origin prefix)
    t = x + 1
    u = ctx.call(_two_helpers, (t,))
    res = t * u
    return ctx(res)


def stress_complex_parts(ctx, z):
    # anonymous real and imaginary parts (no local names): used more than once and as the reference
    # operand of constants, so printers must invent names for them from the argument's name
    re = z.real * z.real - z.imag * z.imag
    im = 2 * z.real * z.imag
    return ctx.complex(re, im + 0.5 * z.imag)


def stress_dunder_names(ctx, z):
    # user variable names with double underscores
    z__re = z.real
    z__im = z.imag
    re__part = z__re * 2 + z__im
    return ctx(ctx.complex(re__part, z__im - z__re * 0.5))


def stress_folded_constants(ctx, x):
    # constants that the rewriter folds in the arithmetic of the declared dtype (0.5 and 1.5 are exact in
    # every float width, so float32 / float64 / python-float requests build ==-equal constants of
    # different types), anonymous and used more than once so that printers have to name them
    h = ctx.constant(0.25, x) * 2
    k = ctx.constant(0.75, x) * 2
    return x * h + h * (x * x) + k * x + k


def stress_user_name_equals_auto_name(ctx, x, y):
    # a user variable whose name equals the name the package generates for another, anonymous expression
    # that also needs a variable (abs(x) -> "abs_x")
    abs_x = ctx.maximum(abs(x), y)
    r = abs(x) * abs_x + abs(x)
    return ctx(r)


def stress_constant_names(ctx, x, y):
    # anonymous constants whose generated names are easy to confuse: same mantissa with opposite binary
    # exponents (scale down / scale up), same digits with opposite signs, integral and nearly integral values,
    # a value and its negation
    lo = 2.0**-600
    hi = 2.0**600
    n = ctx.sqrt((x * lo) * (x * lo) + (y * lo) * (y * lo)) * hi
    m = x * 2.5 + y * 0.625 + x * (-2.5) * y
    k = x * 3.0 + y * 3.0000000000000004 + (x + 1e22) * 1e-22
    return n + m * k


def stress_constant_left_compare(ctx, z):
    # comparisons whose LEFT operand is a constant attached to a value that has not been printed yet
    # (Python's `0 < y` would be reflected to `y > 0`; the Context methods keep the order)
    y = z.imag
    c = ctx.lt(0, y)
    d = ctx.ge(ctx.constant(2, z.real), z.real)
    e = ctx.le(ctx.constant(1.5, abs(z)), abs(z))
    r = ctx.select(c, z.real, -z.real) + ctx.select(d, y, -y)
    return ctx.select(e, r, r * 2)


def stress_list_args(ctx, x: list, y):
    # a list argument of which only the items 1 and 2 are used (item 0 precedes the used ones)
    return x[1] * y + x[2] * x[1]


def stress_literal_infinities(ctx, x):
    # literal (not named) infinities, each needed more than once
    pinf = ctx.constant(float("inf"), x)
    ninf = ctx.constant(-float("inf"), x)
    r = ctx.select(x > 1.0, pinf, x) + ctx.select(x < -1.0, ninf, x)
    return ctx.select(r == pinf, x, ctx.select(r == ninf, -x, r))


def stress_derived_names(ctx, x, x_0):
    # user names that look like the names the registry derives on a collision (x -> ..x..0.., constant -> ..constant..0..)
    # next to an anonymous literal 0 that is used twice: traced twice on one context (two signatures), the second
    # trace's `x` and `constant` collide with the first one's
    constant = x * x_0 + x
    t_0 = constant * constant - x_0
    r = ctx.select(t_0 > 0, t_0, ctx.constant(0, x)) + ctx.select(x > 0, constant, ctx.constant(0, x))
    return ctx(r)


def stress_pair_f(ctx, x, y):
    # with stress_pair_g on one context: f names the product `t` and needs `square`, which python / cpp do not
    # have natively (so a print before expansion fails half-way); g re-uses the product and calls something else `t`
    t = x * y
    return ctx(ctx.square(t) + t)


def stress_pair_g(ctx, x, y):
    u = x * y
    t = x + y
    return ctx(t * t - u * u)


def stress_mode_switch(ctx, x, y):
    # one algorithm, two graphs of the SAME shape (same kinds of positions, same creation order) selected by a
    # user context parameter: anything that identifies a graph by its shape instead of its content confuses them
    if ctx.parameters.get("mode") == "multiplicative":
        return ctx.select(x <= y, x * y, x / y)  # (not `>`: the rewriter mirrors it, which changes the creation order)
    return ctx.select(x < y, x + y, x - y)


def stress_user_modifier(ctx, x):
    # for the "user" pipeline (a user-written rewrite modifier applied top-down after the graph has been printed
    # once): a named sub-expression and a parent of it are both rewritten
    s = ctx.log1p(x)
    r = ctx.log1p(s * s)
    return ctx(r + s)


def user_modifier(expr):
    """A rewrite modifier as a user would write one: log1p(u) -> log(1 + u)."""
    if expr.kind == "log1p":
        (u,) = expr.operands
        return expr.context.log(1 + u)
    return expr


def stress_shadow(ctx, x):
    # local names chosen to collide with names that library algorithms use internally
    one = ctx.constant(1, x)
    ax = abs(x)
    x2 = x * x
    result = ctx.select(ax > one, x2 + one, x2 - one)
    return ctx(result)


def stress_hypot_user(ctx, x, y):
    h = ctx.hypot(x, y)
    s = ctx.square(x)
    result = h + s
    return ctx(result)


STRESS = {
    "stress_internal_names": (stress_internal_names, 2, "float"),
    "stress_call_twice": (stress_call_twice, 1, "float"),
    "stress_shadow": (stress_shadow, 1, "float"),
    "stress_hypot_user": (stress_hypot_user, 2, "float"),
    "stress_alias_locals": (stress_alias_locals, 2, "float"),
    "stress_signed_zero": (stress_signed_zero, 1, "float"),
    "stress_nested_helpers": (stress_nested_helpers, 1, "float"),
    "stress_complex_parts": (stress_complex_parts, 1, "complex"),
    "stress_dunder_names": (stress_dunder_names, 1, "complex"),
    "stress_folded_constants": (stress_folded_constants, 1, "float"),
    "stress_user_name_equals_auto_name": (stress_user_name_equals_auto_name, 2, "float"),
    "stress_constant_names": (stress_constant_names, 2, "float"),
    "stress_constant_left_compare": (stress_constant_left_compare, 1, "complex"),
    "stress_derived_names": (stress_derived_names, 2, "float"),
    "stress_pair_f": (stress_pair_f, 2, "float"),
    "stress_pair_g": (stress_pair_g, 2, "float"),
}
# programs that only some targets / configurations accept on the unchanged tree: explicit requests
STRESS_EXPLICIT = [
    # list arguments: numpy only, and only with force_cast_arguments=False (what the package itself uses for them)
    dict(target="numpy", func="stress_list_args", sig=["list:float32,float32,float32", ":float32"], params={"__force_cast__": False}),
    dict(target="numpy", func="stress_list_args", sig=["list:float64,float64,float64", ":float64"], params={"__force_cast__": False}),
    # literal infinities: the python target prints them as the bare name `inf` (a program-dimension defect, not claimed)
    dict(target="numpy", func="stress_literal_infinities", sig=[":float32"]),
    dict(target="numpy", func="stress_literal_infinities", sig=[":float64"]),
    dict(target="cpp", func="stress_literal_infinities", sig=[":float64"]),
    dict(target="stablehlo", func="stress_literal_infinities", sig=[":float"]),
    dict(target="xla_client", func="stress_literal_infinities", sig=[":float"]),
]
for _t in TARGETS:
    for _mode in ("additive", "multiplicative"):
        STRESS_EXPLICIT.append(dict(target=_t, func="stress_mode_switch",
                                    sig=[{"python": ":float", "stablehlo": ":float", "xla_client": ":float"}.get(_t, ":float64")] * 2,
                                    params={"mode": _mode}))
for _t in ("python", "numpy", "cpp", "stablehlo", "xla_client"):
    STRESS_EXPLICIT.append(dict(target=_t, func="stress_user_modifier",
                                sig=[{"python": ":float", "stablehlo": ":float", "xla_client": ":float"}.get(_t, ":float64")],
                                params={"__pipeline__": "user"}))
STRESS_FUNCS_EXPLICIT = {"stress_mode_switch": stress_mode_switch, "stress_user_modifier": stress_user_modifier, "stress_list_args": stress_list_args, "stress_literal_infinities": stress_literal_infinities}

STRESS_SIGS = {
    "python": {"float": [":float"], "complex": [":complex"]},
    "numpy": {"float": [":float32", ":float64"], "complex": [":complex64", ":complex128"]},
    "stablehlo": {"float": [":float"], "complex": [":complex"]},
    "xla_client": {"float": [":float"], "complex": [":complex"]},
    "cpp": {"float": [":float32", ":float64"], "complex": [":complex64", ":complex128"]},
    "lax": {"float": [":float32", ":float64"], "complex": [":complex64"]},
}


def make_overrides2():
    """Another user module with the SAME __name__ as make_overrides() but different definitions: providers are
    objects, not names."""

    class UserOverrides:
        @staticmethod
        def hypot(ctx, x, y):
            mx = ctx.maximum(abs(x), abs(y))
            return mx + ctx.minimum(abs(x), abs(y)) * 0.5

        @staticmethod
        def square(ctx, x):
            return x * x - 0 * x

    UserOverrides.__name__ = "UserOverrides"
    return UserOverrides


def make_overrides():
    """A fresh user module-like object overriding two definitions; listed BEFORE fa.algorithms in
    Context(paths=[...]), so its definitions must win, whatever else the process did before."""

    class UserOverrides:
        @staticmethod
        def hypot(ctx, x, y):
            return ctx.sqrt(x * x + y * y)

        @staticmethod
        def square(ctx, x):
            return x * x + 0 * x

    UserOverrides.__name__ = "UserOverrides"
    return UserOverrides


PATHS_FUNCS = ["hypot", "square", "absolute", "stress_hypot_user"]

PARAM_FUNCS = ["asinh", "acosh", "asin", "log1p"]
PARAM_SETS = [{"safe_min_limit": 1.0}, {"safe_max_limit_coefficient": 4.0}, {"use_fast2sum": False},
              {"rewrite_keep_integer_literals": True}]


def decode_sig(sig):
    """Signature entries are strings; "list:float32,float32" stands for list[numpy.float32, numpy.float32]."""
    import numpy

    out = []
    for x in sig:
        if isinstance(x, str) and x.startswith("list:"):
            items = tuple(getattr(numpy, t) if hasattr(numpy, t) else {"float": float, "complex": complex}[t] for t in x[5:].split(","))
            out.append(list[items])
        else:
            out.append(x)
    return out


def get_func(fa, name):
    if name in STRESS:
        return STRESS[name][0]
    if name in STRESS_FUNCS_EXPLICIT:
        return STRESS_FUNCS_EXPLICIT[name]
    if name.startswith("gen:"):
        from .progen import get_generated

        parts = name.split(":")
        return get_generated(int(parts[1]), parts[2] == "c", len(parts) > 3 and parts[3] == "i")[0]
    return getattr(fa.algorithms, name)


def generated_request(rng, target):
    """A request for a freshly generated program (see progen), identified by its seed."""
    from .progen import get_generated

    seed = rng.getrandbits(32)
    cplx = rng.random() < 0.3
    # literal infinities: not for the python target, which prints them as the bare name `inf` (not claimed)
    inf = target != "python" and rng.random() < 0.3
    _, nargs, _ = get_generated(seed, cplx, inf)
    tys = STRESS_SIGS[target]["complex" if cplx else "float"]
    if target == "cpp":
        # double only: the cpp target emits constants as untyped (double) literals, so float32 programs that
        # pass a literal to a libm function do not even compile (std::min(double, float)); that is a
        # program-dimension matter about constant typing, outside the scoped claim (DESIGN.md section 11)
        tys = [x for x in tys if x in (":float64", ":complex128")]
    ty = rng.choice(tys)
    return dict(target=target, func="gen:%d:%s%s" % (seed, "c" if cplx else "r", ":i" if inf else ""), sig=[ty] * nargs, sigidx=0)


def build_universe(fa, extra_targets=()):
    """List of request descriptors: dict(target, func, sig (list of str), sigidx)."""
    out = []
    for t in list(TARGETS) + list(extra_targets):
        mod = getattr(fa.targets, t, None)
        ta = getattr(mod, "trace_arguments", None)
        if not isinstance(ta, dict):
            continue
        for func in sorted(ta):
            if not hasattr(fa.algorithms, func):
                continue
            for i, sig in enumerate(ta[func]):
                out.append(dict(target=t, func=func, sig=[s if isinstance(s, str) else s.__name__ for s in sig], sigidx=i))
        # context parameters that shipped algorithms / the rewriter read: part of what the text may depend on
        for func in PARAM_FUNCS:
            if func in ta and hasattr(fa.algorithms, func) and ta[func]:
                sig = ta[func][0]
                for params in PARAM_SETS:
                    out.append(dict(target=t, func=func, sig=[s if isinstance(s, str) else s.__name__ for s in sig], sigidx=0,
                                    params=dict(params)))
        for func in ("asinh", "hypot", "square", "log1p"):
            if func in ta and ta[func]:
                sig = [x if isinstance(x, str) else x.__name__ for x in ta[func][0]]
                out.append(dict(target=t, func=func, sig=sig, sigidx=0, params={"__rename__": True}))
                out.append(dict(target=t, func=func, sig=sig, sigidx=0, params={"__pipeline__": "legacy"}))
                out.append(dict(target=t, func=func, sig=sig, sigidx=0, params={"__pipeline__": "combined"}))
                out.append(dict(target=t, func=func, sig=sig, sigidx=0, params={"__override_name__": True}))
                if t in ("python", "numpy", "cpp", "xla_client"):
                    out.append(dict(target=t, func=func, sig=sig, sigidx=0, params={"__tab__": "    "}))
                if t == "numpy":
                    out.append(dict(target=t, func=func, sig=sig, sigidx=0, params={"__force_cast__": False}))
        if t in ("numpy", "cpp", "python"):
            for func in ("asinh", "acosh", "asin", "hypot", "square", "log1p", "stress_folded_constants", "stress_constant_names"):
                if func in STRESS:
                    sigs = [[ty] * STRESS[func][1] for ty in STRESS_SIGS[t][STRESS[func][2]]]
                else:
                    sigs = [[x if isinstance(x, str) else x.__name__ for x in sg] for sg in (ta.get(func) or [])]
                for i, sig in enumerate(sigs[:2]):
                    out.append(dict(target=t, func=func, sig=sig, sigidx=i, params={"__alt__": "float" if t == "python" else "float64"}))
        for func in PATHS_FUNCS:
            sigs = ta.get(func) or ([[ty] * STRESS[func][1] for ty in STRESS_SIGS[t][STRESS[func][2]]] if func in STRESS else [])
            for i, sig in enumerate(sigs[:2]):
                out.append(dict(target=t, func=func, sig=[s if isinstance(s, str) else s.__name__ for s in sig], sigidx=i,
                                params={"__paths__": "overrides"}))
                out.append(dict(target=t, func=func, sig=[s if isinstance(s, str) else s.__name__ for s in sig], sigidx=i,
                                params={"__paths__": "overrides2"}))
        for name in sorted(STRESS):
            _, nargs, kind = STRESS[name]
            for i, ty in enumerate(STRESS_SIGS[t][kind]):
                out.append(dict(target=t, func=name, sig=[ty] * nargs, sigidx=i))
    for r in STRESS_EXPLICIT:
        if r["target"] in list(TARGETS) + list(extra_targets):
            out.append(dict(r, sig=list(r["sig"]), sigidx=0, params=dict(r["params"]) if r.get("params") else None))
    return out


def params_tag(params):
    if not params:
        return ""
    return ":params=" + ",".join("%s=%r" % (k, params[k]) for k in sorted(params))


def print_options(req_params, func):
    """(printer keyword arguments, function name override) encoded as pseudo parameters of a request."""
    kw, name = {}, None
    if req_params:
        if "__force_cast__" in req_params:
            kw["force_cast_arguments"] = req_params["__force_cast__"]
        if "__tab__" in req_params:
            kw["tab"] = req_params["__tab__"]
        if req_params.get("__rename__"):
            name = func + "_0"  # what results/update.py does: graph.props.update(name=f"{func_name}_{i}")
    return kw, name


def make_context(fa, target, params=None, how="ctor"):
    """Context as results/update.py makes it for `target`, plus optional context parameters.  The pseudo
    parameter "__paths__" = "overrides" lists a user module before fa.algorithms."""
    params = dict(params or {})
    paths = [fa.algorithms]
    which = params.pop("__paths__", None)
    if which == "overrides":
        paths = [make_overrides(), fa.algorithms]
    elif which == "overrides2":
        paths = [make_overrides2(), fa.algorithms]
    for k in [k for k in params if k.startswith("__") and k != "__alt__"]:
        params.pop(k)  # print-time options (see print_options), not context parameters
    kw = context_params(target)
    alt = None
    for k in list(params):
        if k == "__alt__":
            alt = params.pop(k)
    if alt:
        # the alternative constant context with a target whose printer is its own constant printer
        kw = dict(enable_alt=True, default_constant_type=alt)
    if params and how == "ctor":
        return fa.Context(paths=paths, parameters=dict(params), **kw), False
    ctx = fa.Context(paths=paths, **kw)
    for k in params:
        ctx.parameters[k] = params[k]
    return ctx, bool(params)


def req_key(r, debug=None):
    k = "%s:%s:%s" % (r["target"], r["func"], ",".join(r["sig"])) + params_tag(r.get("params"))
    if debug is not None:
        k += ":debug=%d" % debug
    return k
