"""Freshly exec'ed interpreter that runs one history and reports every printed text.

stdin: JSON case; stdout (the original fd 1): one JSON document.  Anything the package prints goes
to /dev/null.
"""

import json
import os
import sys
import warnings


def main():
    out_fd = os.dup(1)
    dn = os.open(os.devnull, os.O_WRONLY)
    os.dup2(dn, 1)
    sys.path.insert(0, os.path.dirname(os.path.dirname(os.path.dirname(os.path.abspath(__file__)))))
    warnings.simplefilter("ignore")
    case = json.load(sys.stdin)
    from sim.core.log import EventLog
    from sim.gensim.history import Executor

    log = EventLog(keep=False)
    log.ev("seed", case.get("seed"))
    stats, probes, faults = {}, {}, {}
    ex = Executor(log, None, stats, probes, faults)
    err = None
    try:
        ex.run(case["history"])
    except BaseException as e:  # reported to the parent, which classifies it as harness trouble
        import traceback

        err = traceback.format_exc()[-3000:]
    import functional_algorithms

    res = dict(outputs=ex.outputs, stats=stats, probes=probes, faults=faults, steps=ex.steps, digest=log.digest(),
               error=err, source=os.path.realpath(functional_algorithms.__file__),
               hashseed=os.environ.get("PYTHONHASHSEED"))
    data = json.dumps(res).encode()
    off = 0
    while off < len(data):
        off += os.write(out_fd, data[off:off + 65536])


if __name__ == "__main__":
    main()
