"""Independent MXCSR reader/writer (own mmap'ed stmxcsr/ldmxcsr stubs).

Deliberately shares nothing with functional_algorithms.fpu, so a changed
accessor there cannot lie to the oracle.
"""

import ctypes
import mmap
import platform
import sys


def available():
    return platform.machine() == "x86_64" and sys.maxsize > 2**32


class Observer:
    def __init__(self):
        buf = mmap.mmap(-1, mmap.PAGESIZE, prot=mmap.PROT_READ | mmap.PROT_WRITE)
        self._buf = buf
        get_asm = b"\x0f\xae\x1f\xc3" + b"\x90" * 12  # stmxcsr [rdi]; ret
        set_asm = b"\x0f\xae\x17\xc3" + b"\x90" * 12  # ldmxcsr [rdi]; ret
        addr = ctypes.addressof(ctypes.c_void_p.from_buffer(buf))
        buf.write(get_asm)
        buf.write(set_asm)
        libc = ctypes.CDLL(None, use_errno=True)
        libc.mprotect.argtypes = [ctypes.c_void_p, ctypes.c_size_t, ctypes.c_int]
        libc.mprotect.restype = ctypes.c_int
        if libc.mprotect(addr, mmap.PAGESIZE, mmap.PROT_READ | mmap.PROT_EXEC) != 0:
            raise OSError("mprotect failed: errno %d" % ctypes.get_errno())
        proto = ctypes.CFUNCTYPE(None, ctypes.POINTER(ctypes.c_uint32))
        self._get = proto(addr)
        self._set = proto(addr + 16)

    def read(self):
        v = ctypes.c_uint32()
        self._get(ctypes.byref(v))
        return v.value

    def write(self, value):
        # reserved bits 16..31 must be zero or ldmxcsr raises #GP
        assert 0 <= value < (1 << 16), hex(value)
        v = ctypes.c_uint32(value)
        self._set(ctypes.byref(v))
