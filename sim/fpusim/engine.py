"""fpusim -- C18: the FPU control context always restores the control register.

Real code: functional_algorithms.fpu (context(), MXCSRRegister, its ContextDecorator
subclass), the real hardware register, real `with` machinery, real threads.
Simulator-owned: the program (nesting, specs, entry styles, exceptions), the
thread schedule (baton passing, pre-emption at line events inside fpu.py and at
statement boundaries), and an independent observer of the register.
"""

import contextlib
import struct
import sys
import threading

from ..core import ddmin as dd
from ..core.log import EventLog, digest_of
from ..core.seeds import stream
from .observer import Observer, available

STATUS = 0x003F
DAZ_BIT = 1 << 6
MASKS = 0x1F80
RC = 0x6000
FZ_BIT = 1 << 15
DEFAULT_MASKS = 0x1F80
RN_CODE = {"nearest": 0, "down": 1, "up": 2, "towardszero": 3}
RN_NAME = {v: k for k, v in RN_CODE.items()}


def apply_spec(spec, v):
    """The property statement transcribed: only the requested bits change."""
    if spec.get("RN") is not None:
        v = (v & ~RC) | (RN_CODE[spec["RN"]] << 13)
    if spec.get("FZ") is not None:
        v = (v | FZ_BIT) if spec["FZ"] else (v & ~FZ_BIT)
    if spec.get("DAZ") is not None:
        v = (v | DAZ_BIT) if spec["DAZ"] else (v & ~DAZ_BIT)
    return v & 0xFFFFFFFF


def fields_differing(a, b):
    d = a ^ b
    out = []
    if d & FZ_BIT:
        out.append("FZ")
    if d & DAZ_BIT:
        out.append("DAZ")
    if d & RC:
        out.append("RN")
    if d & MASKS:
        out.append("MASKS")
    if d & STATUS:
        out.append("STATUS")
    if d & 0xFFFF0000:
        out.append("RESERVED")
    return "+".join(out) or "none"


class InjectedFault(BaseException):
    pass


def _noop():
    return None


class CustomBase(BaseException):
    pass


EXC = {
    "ValueError": ValueError,
    "ZeroDivisionError": ZeroDivisionError,
    "KeyboardInterrupt": KeyboardInterrupt,
    "SystemExit": SystemExit,
    "GeneratorExit": GeneratorExit,
    "CustomBase": CustomBase,
    "InjectedFault": InjectedFault,
    "KeyError": KeyError,
}
HOWS = ["fresh", "module", "premade", "decorated", "exitstack", "manual"]

# ---- probe operands, held in variables so nothing is constant-folded
_MIN_NORMAL = struct.unpack("<d", struct.pack("<Q", 0x0010000000000000))[0]
_MAX_SUBNORMAL = struct.unpack("<d", struct.pack("<Q", 0x000FFFFFFFFFFFFF))[0]
_HALF = 0.5
_FOUR = 4.0
_ONE = 1.0
_MONE = -1.0
_EPS60 = struct.unpack("<d", struct.pack("<Q", (1023 - 60) << 52))[0]  # 2**-60
_ULP34 = struct.unpack("<d", struct.pack("<Q", ((1023 - 53) << 52) | (1 << 51)))[0]  # 0.75 * 2**-52
_BIG = 1e308
_TEN = 10.0
_TINY = 1e-300
_THREE = 3.0
_INF = float("inf")


def _bits(x):
    return struct.unpack("<Q", struct.pack("<d", x))[0]


def probe_mode():
    """Observe (FZ, DAZ, RN) through double arithmetic; results read as bit patterns."""
    fz = _bits(_MIN_NORMAL * _HALF) == 0
    daz = _bits(_MAX_SUBNORMAL * _FOUR) == 0
    a = _bits(_ONE + _EPS60) != 0x3FF0000000000000
    b = _bits(_MONE - _EPS60) != 0xBFF0000000000000
    c = _bits(_ONE + _ULP34) != 0x3FF0000000000000
    if a and not b:
        rn = "up"
    elif b and not a:
        rn = "down"
    elif not a and not b:
        rn = "nearest" if c else "towardszero"
    else:
        rn = "inconsistent"
    return fz, daz, rn


def raise_flag(kind):
    if kind == "inexact":
        return _ONE / _THREE
    if kind == "underflow":
        return _TINY * _TINY
    if kind == "overflow":
        return _BIG * _TEN
    if kind == "invalid":
        return _INF - _INF
    if kind == "denormal":
        return _MAX_SUBNORMAL + _ONE
    raise KeyError(kind)


FLAG_KINDS = ["inexact", "underflow", "overflow", "invalid", "denormal"]


# ---------------------------------------------------------------- implementations under test


class RealImpl:
    name = "real"

    def __init__(self):
        import functional_algorithms.fpu as fpu

        self.fpu = fpu
        self.reg = fpu.MXCSRRegister()

    def fresh(self, spec):
        return self.reg(**spec)

    def module(self, spec):
        return self.fpu.context(**spec)


class _NullCM(contextlib.ContextDecorator):
    def __enter__(self):
        return None

    def __exit__(self, *a):
        return False


class NullImpl:
    """Calibration: a context manager that does nothing; the model is the identity."""

    name = "null"
    reg = None

    def fresh(self, spec):
        return _NullCM()

    module = fresh


# ---------------------------------------------------------------- scheduler (baton passing)


class Scheduler:
    def __init__(self, n, schedule, log):
        self.n = n
        self.schedule = schedule
        self.log = log
        self.i = 0
        self.locks = [threading.Lock() for _ in range(n)]
        for l in self.locks:
            l.acquire()
        self.alive = list(range(n))
        self.done = threading.Lock()
        self.done.acquire()
        self.switches = 0
        self.points = 0
        self.switch_in_enter = 0
        self.current = None

    def _choose(self, tid):
        i = self.i
        self.i += 1
        c = self.schedule[i] if i < len(self.schedule) else -1
        if c < 0 or not self.alive:
            return tid
        return self.alive[c % len(self.alive)]

    def point(self, tid, where=None):
        if self.n == 1:
            return
        self.points += 1
        nxt = self._choose(tid)
        if nxt != tid:
            self.switches += 1
            if where == "fpu":
                self.switch_in_enter += 1
            self.log.ev("sw", tid, nxt, where)
            self.current = nxt
            self.locks[nxt].release()
            self.locks[tid].acquire()

    def start(self):
        first = self.alive[0]
        if self.schedule:
            c = self.schedule[0]
            if c >= 0:
                first = self.alive[c % len(self.alive)]
        self.current = first
        self.locks[first].release()

    def wait_turn(self, tid):
        self.locks[tid].acquire()

    def finish(self, tid):
        self.alive.remove(tid)
        if not self.alive:
            self.done.release()
            return
        nxt = self._choose(self.alive[0])
        if nxt not in self.alive:
            nxt = self.alive[0]
        self.log.ev("fin", tid, nxt)
        self.current = nxt
        self.locks[nxt].release()


# ---------------------------------------------------------------- interpreter of one thread's program


class ThreadProg:
    def __init__(self, tid, prog, impl, obs, sched, log, mode, noisy, out):
        self.tid = tid
        self.prog = prog
        self.impl = impl
        self.obs = obs
        self.sched = sched
        self.log = log
        self.mode = mode  # 'arith' or 'bits'
        self.noisy = noisy
        self.out = out  # shared dict: violations, stats, probes, states
        self.model = None  # model register (control field is authoritative)
        self.depth = 0
        self.slots = {}
        self.active = set()
        self.steps = 0
        self.exc_depth = []

    # -- bookkeeping
    def stat(self, k, n=1):
        s = self.out["stats"]
        s[k] = s.get(k, 0) + n

    def probe_hit(self, k, n=1):
        s = self.out["probes"]
        s[k] = s.get(k, 0) + n

    def fault(self, k, n=1):
        s = self.out["faults"]
        s[k] = s.get(k, 0) + n

    def violation(self, cls, key, **detail):
        detail["thread"] = self.tid
        detail["depth"] = self.depth
        self.log.ev("VIOLATION", cls, key)
        if len(self.out["violations"]) < 20:
            self.out["violations"].append({"cls": cls, "key": key, "detail": detail})

    def same(self, a, b):
        """Exact 32-bit equality unless calibration found the harness itself raises status flags."""
        if self.noisy:
            return (a & ~STATUS) == (b & ~STATUS) and (a & b & STATUS) == (b & STATUS)
        return a == b

    # -- execution
    def run(self):
        obs = self.obs
        start = obs.read()
        init = self.prog.get("init")
        try:
            if init is not None:
                obs.write(init)
                self.stat("setreg")
            base = obs.read()
            self.model = base
            self.log.ev("start", self.tid, base)
            try:
                self.block(self.prog["block"])
                self.log.ev("end", self.tid, "normal")
            except BaseException as e:  # propagated to the top of the thread
                self.log.ev("end", self.tid, type(e).__name__)
                self.stat("exc_reached_top")
            end = obs.read()
            if (end & ~STATUS) != (base & ~STATUS):
                self.violation(
                    "final-state",
                    fields_differing(end & ~STATUS, base & ~STATUS),
                    initial=hex(base),
                    final=hex(end),
                )
            if self.mode == "arith":
                self.check_probe("final-probe", base)
        finally:
            obs.write(start & 0xFFFF)

    def block(self, stmts):
        for st in stmts:
            self.step(st)

    def check_probe(self, cls, model):
        fz, daz, rn = probe_mode()
        exp = (bool(model & FZ_BIT), bool(model & DAZ_BIT), RN_NAME[(model & RC) >> 13])
        self.log.ev("probe", self.tid, fz, daz, rn)
        self.out["states"].add("p%d:%04x" % (self.depth, model & 0xFFC0))
        if (fz, daz, rn) != exp:
            bad = [n for n, o, e in zip(("FZ", "DAZ", "RN"), (fz, daz, rn), exp) if o != e]
            self.violation(cls, "+".join(bad), observed=[fz, daz, rn], expected=list(exp), model=hex(model))

    def make_cm(self, spec, how):
        if how == "module":
            return self.impl.module(spec)
        return self.impl.fresh(spec)

    def step(self, st):
        self.steps += 1
        self.sched.point(self.tid, "stmt")
        op = st[0]
        self.log.ev("op", self.tid, op)
        if op == "with":
            self.do_with(st)
        elif op == "probe":
            if self.mode == "arith":
                self.check_probe("probe-mode", self.model)
                self.stat("probes")
        elif op == "flags":
            if self.mode == "arith":
                raise_flag(st[1])
                self.stat("flags_raised")
        elif op == "raise":
            self.fault("raise:" + st[1])
            if self.depth >= 3:
                self.probe_hit("exception_at_depth_ge3")
            if self.depth >= 1:
                self.fault("raise_inside_context")
            raise EXC[st[1]]("injected at depth %d" % self.depth)
        elif op == "try":
            try:
                self.block(st[1])
            except tuple(EXC[n] for n in st[2]) as e:
                self.stat("caught")
                self.log.ev("caught", self.tid, type(e).__name__)
        elif op == "suppress":
            with contextlib.suppress(BaseException):
                self.block(st[1])
            self.probe_hit("foreign_suppress_block")
        elif op == "deep":
            # the enclosed statement issued with almost no interpreter stack left (k frames of head-room): whatever
            # runs out of stack where, the register must be back at its value once the RecursionError has unwound
            k, inner = st[1], st[2]
            before = self.obs.read()
            model_before = self.model
            depth_before = self.depth
            d, f = 0, sys._getframe()
            while f is not None:
                d += 1
                f = f.f_back
            n = sys.getrecursionlimit() - d - k

            lean = len(st) > 3 and st[3] == "lean" and inner[0] == "with"
            if lean:
                # nothing but the context manager runs down there: the object is prepared up here ("created in
                # advance"), the bottom frame executes `with cm: pass` (or calls the decorated no-op), so that the
                # frames __enter__ and __exit__ need are the only ones that matter
                spec, how, slot = inner[1], inner[2], inner[4]
                try:
                    if slot is not None and slot in self.slots and slot not in self.active:
                        cm = self.slots[slot][0]
                    else:
                        cm = self.make_cm(spec, how)
                    target = cm(_noop) if how == "decorated" else None
                except (TypeError, AttributeError, KeyError, NotImplementedError):
                    self.stat("api_unsupported")
                    return

                def bottom():
                    if target is not None:
                        target()
                    else:
                        with cm:
                            pass

                self.stat("deep_lean_statements")
            else:
                def bottom():
                    return self.step(inner)

            def down(m):
                if m <= 0:
                    return bottom()
                return down(m - 1)

            self.stat("deep_stack_statements")
            try:
                down(max(n, 0))
            except RecursionError:
                self.stat("deep_statement_ran_out_of_stack")
                self.fault("RecursionError_unwound_through_contexts")
                self.model = model_before
                self.depth = depth_before
                now = self.obs.read()
                if not self.same(now, before):
                    self.violation("exit-restore", "recursion-error|" + fields_differing(now, before), on_entry=hex(before),
                                   after_unwinding=hex(now), head_room=k)
        elif op == "read":
            # the public read-only accessors, called as user code would call them inside and between bodies.
            # They are workload, not oracle: the property does not speak about them (on the unchanged tree
            # `str(register)` raises the sticky inexact flag), but whatever they do to the register is then
            # subject to the enter / exit / final checks like anything else a body does.
            try:
                self.impl.reg.FZ, self.impl.reg.DAZ, str(self.impl.reg)
                self.stat("accessor_reads")
            except AttributeError:
                self.stat("api_unsupported")
            self.model = (self.model & ~STATUS) | (self.obs.read() & STATUS)
        elif op == "drop":
            # the user forgets a pre-built context object (its finaliser, if any, runs here or at the next gc)
            if st[1] not in self.active and self.slots.pop(st[1], None) is not None:
                self.stat("premade_dropped")
        elif op == "gc":
            import gc

            gc.collect()
            self.stat("gc_collect_statements")
        elif op == "poke":
            # foreign code inside a body changes the register itself (e.g. a C library that sets FTZ and does
            # not put it back): whatever it leaves, the enclosing context's exit must restore the entry value
            v = st[1]
            reg = getattr(self.impl, "reg", None)
            if len(st) > 2 and st[2] == "api" and reg is not None and hasattr(reg, "set_mxcsr"):
                import ctypes

                reg.set_mxcsr(ctypes.c_uint32(v))  # through the package's own setter, as user code would
                self.stat("register_changed_through_set_mxcsr")
            else:
                self.obs.write(v)
            self.model = v
            self.stat("register_changed_by_body")
            if self.depth >= 1:
                self.probe_hit("register_changed_inside_a_context_body")
        elif op == "make":
            slot, spec = st[1], st[2]
            if slot not in self.active:
                try:
                    self.slots[slot] = (self.impl.fresh(spec), spec, self.obs.read() & ~STATUS)
                    self.stat("premade_created")
                except (TypeError, AttributeError, KeyError):
                    self.stat("api_unsupported")
        else:
            raise RuntimeError("unknown statement %r" % (op,))

    def do_with(self, st):
        _, spec, how, body, slot = st[:5]
        obs = self.obs
        cm = None
        created_elsewhere = False
        try:
            reenter = len(st) > 5 and st[5] == "reenter"
            if how in ("premade", "decorated") and slot is not None and slot in self.slots and (slot not in self.active or reenter):
                cm, spec, made_under = self.slots[slot]
                created_elsewhere = True
                if slot in self.active:
                    # the object is entered again while it is still active (A -> B -> A). The unchanged code
                    # refuses with an AssertionError before touching the register: a failed operation. Code
                    # that accepts the re-entry must keep the promise for it.
                    self.probe_hit("active_context_object_entered_again")
            else:
                slot = None
                cm = self.make_cm(spec, how)
        except (TypeError, AttributeError, KeyError, NotImplementedError):
            if spec.get("RN") is not None and spec["RN"] not in RN_CODE:
                self.stat("invalid_request_rejected_at_creation")
                self.fault("rejected_request_inside_contexts" if self.depth else "rejected_request_at_top_level")
                raise  # as in user code: the error propagates through the enclosing bodies
            self.stat("api_unsupported")
            self.block(body)
            return
        if spec.get("RN") is not None and spec["RN"] not in RN_CODE:
            # accepted at creation: then entering must fail without touching anything, or keep the promise
            self.stat("invalid_request_accepted_at_creation")
            before0 = obs.read()
            try:
                with cm:
                    pass
            except BaseException:
                self.fault("rejected_request_inside_contexts" if self.depth else "rejected_request_at_top_level")
                if not self.same(obs.read(), before0):
                    self.violation("enter-bits", "rejected-request-changed-register", before=hex(before0), after=hex(obs.read()))
                raise
            return
        before = obs.read()
        if created_elsewhere and made_under != (before & ~STATUS):
            self.probe_hit("premade_entered_under_other_state")
        expected = apply_spec(spec, before)
        model_before = self.model
        entered = []

        def inside():
            after = obs.read()
            entered.append(after)
            self.model = apply_spec(spec, model_before)
            self.depth += 1
            self.log.ev("enter", self.tid, how, after)
            self.stat("enter")
            self.stat("enter:" + how)
            self.out["states"].add("e%d:%04x:%s" % (self.depth, after & 0xFFC0, how))
            if not self.same(after, expected):
                self.violation(
                    "enter-bits",
                    "%s|%s" % (how, fields_differing(after, expected)),
                    spec=spec,
                    before=hex(before),
                    after=hex(after),
                    expected=hex(expected),
                    created_under_other_state=created_elsewhere and made_under != (before & ~STATUS),
                )
            was_active = slot in self.active
            if slot is not None:
                self.active.add(slot)
            try:
                self.block(body)
            finally:
                self.depth -= 1
                if slot is not None and not was_active:
                    self.active.discard(slot)

        exc = None
        try:
            if how == "decorated":
                try:
                    f = cm(inside)
                except TypeError:
                    self.stat("api_unsupported")
                    f = None
                if f is None:
                    with cm:
                        inside()
                else:
                    f()
            elif how == "exitstack":
                with contextlib.ExitStack() as es:
                    es.enter_context(cm)
                    inside()
            elif how == "manual":
                cm.__enter__()
                try:
                    inside()
                except BaseException as e:
                    if not cm.__exit__(type(e), e, e.__traceback__):
                        raise
                else:
                    cm.__exit__(None, None, None)
            else:
                with cm:
                    inside()
        except BaseException as e:
            exc = e
            raise
        finally:
            now = obs.read()
            self.model = model_before
            if entered:
                self.stat("exit")
                kind = "normal" if exc is None else type(exc).__name__
                if exc is not None:
                    self.stat("exit_exceptional")
                    self.fault("exception_through_context:" + kind)
                self.log.ev("exit", self.tid, kind, now)
                self.out["states"].add("x%d:%04x:%s" % (self.depth, now & 0xFFC0, "n" if exc is None else "e"))
                if not self.same(now, before):
                    self.violation(
                        "exit-restore",
                        "%s|%s" % ("exceptional" if exc is not None else "normal", fields_differing(now, before)),
                        spec=spec,
                        how=how,
                        exception=kind,
                        on_entry=hex(before),
                        inside=hex(entered[0]),
                        after_exit=hex(now),
                    )
            else:
                self.stat("not_entered")
                if exc is not None:
                    self.log.ev("enter-raised", self.tid, type(exc).__name__)


# ---------------------------------------------------------------- case generation


def gen_spec(rng):
    if rng.random() < 0.03:
        # a request the package must reject (unknown rounding-mode name): wherever it is rejected -- at creation on the
        # unchanged tree -- nothing may be left behind, and the enclosing contexts must still restore
        return {"RN": "to-nearest", "FZ": True}
    spec = {}
    while not spec:
        if rng.random() < 0.55:
            spec["FZ"] = rng.random() < 0.6
        if rng.random() < 0.55:
            spec["DAZ"] = rng.random() < 0.6
        if rng.random() < 0.5:
            spec["RN"] = rng.choice(list(RN_CODE))
    return spec


def gen_block(rng, kn, depth, budget):
    out = []
    n = rng.randint(1, kn["width"])
    for _ in range(n):
        if budget[0] <= 0:
            break
        budget[0] -= 1
        r = rng.random()
        if r < kn["p_with"] and depth < kn["max_depth"]:
            how = rng.choice(kn["hows"])
            slot = None
            if how in ("premade", "decorated") and rng.random() < 0.8:
                slot = rng.randrange(kn["slots"])
            w = ["with", gen_spec(rng), how, gen_block(rng, kn, depth + 1, budget), slot]
            if slot is not None and rng.random() < 0.25:
                w.append("reenter")
            if kn.get("deep") and rng.random() < 0.15:
                w = ["deep", rng.randint(2, 40), w] if rng.random() < 0.5 else ["deep", rng.randint(0, 8), w, "lean"]
            out.append(w)
        elif r < kn["p_with"] + 0.18:
            out.append(["probe"])
        elif r < kn["p_with"] + 0.26:
            out.append(["flags", rng.choice(FLAG_KINDS)])
        elif r < kn["p_with"] + 0.26 + kn["p_raise"]:
            out.append(["raise", rng.choice(kn["excs"])])
        elif r < kn["p_with"] + 0.29 + kn["p_raise"] and depth >= 1 and kn.get("poke"):
            out.append(["poke", gen_init(rng, "arith")] + (["api"] if rng.random() < 0.5 else []))
        elif r < kn["p_with"] + 0.31 + kn["p_raise"]:
            out.append(["read"])
        elif r < kn["p_with"] + 0.35 + kn["p_raise"] and kn.get("gc"):
            out.append(["gc"] if rng.random() < 0.6 else ["drop", rng.randrange(kn["slots"])])
        elif r < kn["p_with"] + 0.36 + kn["p_raise"] and depth < kn["max_depth"]:
            catches = rng.sample(kn["excs"], rng.randint(1, len(kn["excs"])))
            out.append(["try", gen_block(rng, kn, depth, budget), catches])
        elif r < kn["p_with"] + 0.42 + kn["p_raise"] and depth < kn["max_depth"]:
            out.append(["suppress", gen_block(rng, kn, depth, budget)])
        else:
            out.append(["make", rng.randrange(kn["slots"]), gen_spec(rng)])
    return out


def gen_init(rng, mode):
    v = DEFAULT_MASKS
    v |= rng.getrandbits(6)  # status flags
    if rng.random() < 0.5:
        v |= rng.randrange(4) << 13
    if rng.random() < 0.4:
        v |= FZ_BIT
    if rng.random() < 0.4:
        v |= DAZ_BIT
    if mode == "bits":
        # unmask some of DM(8) ZM(9) OM(10) UM(11); never IM(7) / PM(12)
        for b in (8, 9, 10, 11):
            if rng.random() < 0.5:
                v &= ~(1 << b)
    return v


def make_case(seed, tier="quick", nthreads=None, sweep=False):
    kn_rng = stream(seed, "knobs")
    ops_rng = stream(seed, "ops")
    sch_rng = stream(seed, "schedule")
    mode = "bits" if kn_rng.random() < 0.2 else "arith"
    if nthreads is None:
        nthreads = 1 if kn_rng.random() < 0.75 else kn_rng.randint(2, 3)
    if mode == "bits":
        nthreads = 1
    hows = [h for h in HOWS if kn_rng.random() < 0.7] or ["fresh"]
    excs_all = [e for e in EXC if e != "InjectedFault"]
    excs = [e for e in excs_all if kn_rng.random() < 0.6] or ["ValueError"]
    kn = {
        "hows": hows,
        "excs": excs,
        "max_depth": kn_rng.randint(1, 6),
        "width": kn_rng.randint(1, 5),
        "p_with": kn_rng.choice([0.3, 0.45, 0.6]),
        "p_raise": kn_rng.choice([0.0, 0.05, 0.12, 0.2]),
        "slots": kn_rng.randint(1, 3),
        "poke": mode == "arith" and kn_rng.random() < 0.4,
        "gc": kn_rng.random() < 0.5,
        "deep": nthreads == 1 and kn_rng.random() < 0.3,
    }
    threads = []
    for t in range(nthreads):
        budget = [kn_rng.randint(4, 40)]
        prog = {
            "init": gen_init(ops_rng, mode) if kn_rng.random() < 0.6 else None,
            "block": gen_block(ops_rng, kn, 0, budget),
        }
        threads.append(prog)
    schedule = []
    if nthreads > 1:
        p_sw = kn_rng.choice([0.02, 0.1, 0.3, 0.6])
        schedule = [(sch_rng.randrange(nthreads) if sch_rng.random() < p_sw else -1) for _ in range(4000)]
    case = {"seed": seed, "mode": mode, "threads": threads, "schedule": schedule, "impl": "real"}
    if nthreads > 1 and kn_rng.random() < 0.5:
        case["spawn_reg"] = gen_init(ops_rng, "arith")
    if sweep:
        case["sweep"] = True
    return case


# ---------------------------------------------------------------- running a case

_OBS = None
NOISY = False


def get_obs():
    global _OBS
    if _OBS is None:
        _OBS = Observer()
    return _OBS


def _count_with(block):
    n = 0
    for st in block:
        if st[0] == "deep":
            st = st[2]
        if st[0] == "with":
            n += 1 + _count_with(st[3])
        elif st[0] in ("try", "suppress"):
            n += _count_with(st[1])
    return n


def run_case(case):
    if case.get("sweep"):
        return run_sweep(case)
    return run_plain(case)


def run_plain(case):
    """The cyclic garbage collector is a source of nondeterminism the property can depend on (a __del__
    that touches the register): it is switched off for the episode and runs only at `gc` statements of the
    program, i.e. where the seed says."""
    import gc

    was = gc.isenabled()
    gc.collect()
    gc.disable()
    try:
        return _run_plain(case)
    finally:
        if was:
            gc.enable()


def _run_plain(case):
    obs = get_obs()
    log = EventLog(keep=False)
    log.ev("seed", case.get("seed"))
    impl = RealImpl() if case.get("impl", "real") == "real" else NullImpl()
    out = {"violations": [], "stats": {}, "probes": {}, "faults": {}, "states": set()}
    threads = case["threads"]
    n = len(threads)
    sched = Scheduler(n, case.get("schedule") or [], log)
    progs = [ThreadProg(t, threads[t], impl, obs, sched, log, case["mode"], NOISY, out) for t in range(n)]
    if n == 1:
        progs[0].run()
    else:
        fpu_file = "functional_algorithms/fpu.py"

        def tracer_for(tid):
            def local(frame, event, arg):
                if event == "line":
                    sched.point(tid, "fpu")
                return local

            def glob(frame, event, arg):
                if frame.f_code.co_filename.endswith(fpu_file):
                    return local
                return None

            return glob

        errors = []

        def body(tid):
            sched.wait_turn(tid)
            sys.settrace(tracer_for(tid))
            try:
                progs[tid].run()
            except BaseException as e:  # harness trouble
                errors.append(repr(e))
            finally:
                sys.settrace(None)
                sched.finish(tid)

        ths = [threading.Thread(target=body, args=(t,), name="sim-%d" % t, daemon=True) for t in range(n)]
        # a new thread inherits the creator's MXCSR: spawn the workers while the creator holds a seeded
        # (legal) register value, so that a thread's "value on entry" is not always the default
        spawn_reg = case.get("spawn_reg")
        creator_saved = obs.read()
        if spawn_reg is not None:
            obs.write(spawn_reg)
            out["probes"]["threads_spawned_under_non_default_register"] = 1
        try:
            for th in ths:
                th.start()
        finally:
            obs.write(creator_saved & 0xFFFF)
        sched.start()
        sched.done.acquire()
        for th in ths:
            th.join()
        if errors:
            raise RuntimeError("thread error: " + "; ".join(errors))
        out["stats"]["thread_switches"] = sched.switches
        out["stats"]["yield_points"] = sched.points
        if sched.switch_in_enter:
            out["probes"]["thread_switch_inside_fpu_py"] = sched.switch_in_enter
        out["stats"]["multithread_episodes"] = 1
    steps = sum(p.steps for p in progs) + sched.points
    nwith = sum(_count_with(t["block"]) for t in threads)
    if case["mode"] == "bits":
        out["stats"]["bits_episodes"] = 1
        for t in threads:
            if t.get("init") is not None and (t["init"] & MASKS) != DEFAULT_MASKS:
                out["probes"]["unmasked_exception_bits"] = out["probes"].get("unmasked_exception_bits", 0) + 1
    prog_digest = digest_of([case["mode"], threads])[:16]
    return {
        "case": case,
        "digest": log.digest(),
        "violations": out["violations"],
        "stats": out["stats"],
        "probes": out["probes"],
        "faults": out["faults"],
        "states": sorted(out["states"]),
        "steps": steps,
        "case_digest": prog_digest,
        "nontrivial": out["stats"].get("exit", 0) >= 2,
        "sample": {"mode": case["mode"], "threads": threads, "schedule_len": len(case.get("schedule") or [])}
        if nwith <= 8 and out["stats"].get("exit", 0) >= 1
        else None,
    }


# ---- per-program crash-point sweep: one execution per insertion position of an InjectedFault


def positions(block, path=()):
    for i in range(len(block) + 1):
        yield path + (i,)
    for i, st in enumerate(block):
        if st[0] == "with":
            yield from positions(st[3], path + (i, 3))
        elif st[0] in ("try", "suppress"):
            yield from positions(st[1], path + (i, 1))


def insert_at(block, path, stmt):
    import copy

    blk = copy.deepcopy(block)
    cur = blk
    for p in path[:-1]:
        cur = cur[p]
    cur.insert(path[-1], stmt)
    return blk


def run_sweep(case):
    base = dict(case)
    base.pop("sweep", None)
    total = run_plain(base)
    if total["violations"]:
        return total
    total["stats"]["sweep_programs"] = 1
    thr = base["threads"]
    for t in range(len(thr)):
        for path in positions(thr[t]["block"]):
            v = dict(base)
            v["threads"] = [dict(x) for x in thr]
            v["threads"][t]["block"] = insert_at(thr[t]["block"], path, ["raise", "InjectedFault"])
            r = run_plain(v)
            total["steps"] += r["steps"]
            total["stats"]["sweep_executions"] = total["stats"].get("sweep_executions", 0) + 1
            for g in ("stats", "probes", "faults"):
                for k, n in r[g].items():
                    if g == "stats" and k in ("bits_episodes", "multithread_episodes"):
                        continue
                    total[g][k] = total[g].get(k, 0) + n
            total["states"] = sorted(set(total["states"]) | set(r["states"]))
            if r["violations"]:
                r["stats"] = total["stats"]
                return r
    total["case"] = case
    return total


# ---------------------------------------------------------------- minimisation


def _variants(case):
    """Smaller cases, simplest first."""
    import copy

    thr = case["threads"]
    if len(thr) > 1:
        for t in range(len(thr)):
            c = copy.deepcopy(case)
            del c["threads"][t]
            if len(c["threads"]) == 1:
                c["schedule"] = []
            yield c
    if case.get("schedule"):
        c = copy.deepcopy(case)
        c["schedule"] = [-1] * len(case["schedule"])
        yield c
    if case.get("spawn_reg") is not None:
        c = copy.deepcopy(case)
        c["spawn_reg"] = None
        yield c
    for t in range(len(thr)):
        if thr[t].get("init") is not None:
            c = copy.deepcopy(case)
            c["threads"][t]["init"] = None
            yield c

        def walk(block, path):
            for i, st in enumerate(block):
                yield path + (i,), st
                if st[0] == "with":
                    yield from walk(st[3], path + (i, 3))
                elif st[0] in ("try", "suppress"):
                    yield from walk(st[1], path + (i, 1))

        nodes = list(walk(thr[t]["block"], ()))
        for path, st in nodes:  # delete node
            c = copy.deepcopy(case)
            cur = c["threads"][t]["block"]
            for p in path[:-1]:
                cur = cur[p]
            del cur[path[-1]]
            yield c
        for path, st in nodes:  # a statement issued from a deep stack -> the plain statement
            if st[0] == "deep":
                c = copy.deepcopy(case)
                cur = c["threads"][t]["block"]
                for p in path[:-1]:
                    cur = cur[p]
                cur[path[-1]] = copy.deepcopy(st[2])
                yield c
        for path, st in nodes:  # unwrap node (replace by its body)
            if st[0] in ("with", "try", "suppress"):
                c = copy.deepcopy(case)
                cur = c["threads"][t]["block"]
                for p in path[:-1]:
                    cur = cur[p]
                body = st[3] if st[0] == "with" else st[1]
                cur[path[-1] : path[-1] + 1] = copy.deepcopy(body)
                yield c
        for path, st in nodes:  # simplify node
            if st[0] == "with":
                for k in list(st[1]):
                    if len(st[1]) > 1:
                        c = copy.deepcopy(case)
                        cur = c["threads"][t]["block"]
                        for p in path[:-1]:
                            cur = cur[p]
                        del cur[path[-1]][1][k]
                        yield c
                if st[2] != "fresh":
                    c = copy.deepcopy(case)
                    cur = c["threads"][t]["block"]
                    for p in path[:-1]:
                        cur = cur[p]
                    cur[path[-1]][2] = "fresh"
                    cur[path[-1]][4] = None
                    yield c
            if st[0] == "raise" and st[1] != "ValueError":
                c = copy.deepcopy(case)
                cur = c["threads"][t]["block"]
                for p in path[:-1]:
                    cur = cur[p]
                cur[path[-1]][1] = "ValueError"
                yield c


class Engine:
    name = "fpusim"
    prop = "C18"
    level = "exploration"
    timeout_s = 60.0
    rule = (
        "seeded program trees (nested with/try/suppress/raise/probe/flags/make statements, 6 entry styles, "
        "FZ/DAZ/RN specs, 7 exception classes, seeded initial MXCSR) on 1-3 real threads under a seeded baton "
        "scheduler; distinct = distinct (mode, per-thread programs) digest; non-trivial = at least two context "
        "exits were observed by the independent register reader"
    )
    state_measure = "distinct (event kind, nesting depth, control field bits 6-15, entry style or exit kind) tuples observed"
    components = {
        "real": [
            "functional_algorithms.fpu (context(), MXCSRRegister, ContextDecorator subclass)",
            "hardware MXCSR of each thread",
            "CPython with/ExitStack/decorator machinery",
            "real threads (baton-passed; the simulator decides who runs)",
        ],
        "stub": ["none; the oracle's register reader is an independent stmxcsr/ldmxcsr stub in /verif"],
    }
    assumptions = [
        "x86-64 with SSE; ldmxcsr/stmxcsr executable from an mmap'ed page",
        "exceptions are injected into context bodies; inside __enter__/__exit__ only the interpreter's own RecursionError (deep statements) and rejected specifications occur",
        "LIFO nesting only; a context object is never shared between threads; re-entering an active pre-built object is generated and, being rejected by the library, counts as a failed operation",
    ]

    def preload(self):
        global NOISY
        if not available():
            raise RuntimeError("MXCSR not available on this platform")
        import functional_algorithms.fpu  # noqa: F401

        get_obs()
        NOISY = self.calibrate()

    def calibrate(self):
        """Null context manager: every observation must be bit-stable, else status checks are relaxed."""
        from ..core.seeds import derive

        for i in range(200):
            c = make_case(derive(12345, "calib", i), nthreads=1)
            c["impl"] = "null"
            c["mode"] = "bits"  # no probes at all, including the final one
            for t in c["threads"]:
                _nullify(t["block"])
            r = run_plain(c)
            if any(v["cls"] in ("enter-bits", "exit-restore") for v in r["violations"]):
                return True
        return False

    def tier_cfg(self, tier):
        if tier == "quick":
            return {"episodes": 16000}
        return {"episodes": None, "budget_s": 600.0, "min_episodes": 16000}

    def episode(self, task):
        tier = task.get("tier", "quick")
        i = task["i"]
        sweep = tier == "thorough" and i % 8 == 7
        nthreads = None
        if i % 8 == 3:
            nthreads = 2 + (i // 8) % 2
        case = make_case(task["seed"], tier, nthreads=nthreads, sweep=sweep)
        return run_case(case)

    def run_case(self, case):
        return run_case(case)

    def minimise(self, case, fails, budget):
        case = dict(case)
        case.pop("sweep", None)
        return dd.greedy(_variants, case, fails, budget)

    def after_batch(self, agg, tier, master):
        c = agg.counters
        return {
            "calibration_noisy_status_flags": NOISY,
            "enter_exit_pairs": c.get("stats.exit", 0),
            "exceptional_exits": c.get("stats.exit_exceptional", 0),
        }


def _nullify(block):
    """For calibration: contexts request nothing and the program does no arithmetic of its own (probes and
    flag-raising statements removed), so that any change of the register between two observations is
    noise of the interpreter / harness itself."""
    block[:] = [st for st in block if st[0] not in ("probe", "flags", "poke", "gc", "drop", "read")]
    for st in block:
        if st[0] == "deep":
            _nullify([st[2]])
            continue
        if st[0] == "with":
            st[1].clear()
            st[1]["FZ"] = None
            _nullify(st[3])
        elif st[0] in ("try", "suppress"):
            _nullify(st[1])
        elif st[0] == "make":
            st[2].clear()
            st[2]["FZ"] = None
