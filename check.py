"""Entry point: ./check <property-id> [--tier quick|thorough] [--replay file]"""

import argparse
import os
import sys

sys.path.insert(0, os.path.dirname(os.path.abspath(__file__)))


def engine_for(prop):
    if prop == "C18":
        from sim.fpusim.engine import Engine
    elif prop == "C07":
        from sim.conssim.engine import Engine
    elif prop in ("C09", "C05", "C06"):
        from sim.gensim.engine import engine_for as g

        return g(prop)
    else:
        raise SystemExit("no check for property %r (see MANIFEST.json not_applicable)" % prop)
    return Engine()


def main():
    ap = argparse.ArgumentParser()
    ap.add_argument("prop")
    ap.add_argument("--tier", default=os.environ.get("VERIF_TIER", "quick"), choices=["quick", "thorough"])
    ap.add_argument("--replay")
    ap.add_argument("--selftest", action="store_true", help="determinism self-check of the engine")
    ap.add_argument("--episodes", type=int)
    ap.add_argument("--selftest-child", type=int)
    a = ap.parse_args()
    from sim.core import driver

    eng = engine_for(a.prop)
    try:
        if a.replay:
            return driver.do_replay(eng, a.replay)
        if a.selftest_child:
            from sim.core import selftest

            return selftest.child(eng, a.selftest_child)
        if a.selftest:
            from sim.core import selftest

            return selftest.run(eng)
        extra = {"episodes": a.episodes} if a.episodes else None
        if a.episodes:
            # an ad-hoc batch size is not the registered command: its evidence must not replace the committed one
            os.environ.setdefault("VERIF_EVIDENCE_DIR", "/tmp/verif-adhoc-evidence")
        return driver.run_check(eng, a.tier, extra)
    except driver.HarnessError as e:
        print("HARNESS-ERROR", e)
        return 2


if __name__ == "__main__":
    try:
        rc = main()
    except SystemExit:
        raise
    except BaseException:
        import traceback

        traceback.print_exc()
        print("HARNESS-ERROR uncaught exception in the harness")
        rc = 2
    sys.exit(rc)
