#!/bin/bash
# Offline setup: nothing to build or install (checks use /venv's python with the repo's own
# dependencies; evidence is validated through python3-vt's jsonschema when present).
set -e
cd "$(dirname "$0")"
mkdir -p evidence replays
/venv/bin/python -c "import numpy, mpmath, functional_algorithms" 
command -v g++ >/dev/null || echo "warning: g++ missing (C05 cpp execution will be skipped)"
echo setup ok
