"""Sensitivity: apply known-bad edits to a scratch copy of the package and see whether a check finds them.

usage: tools/mutants.py <property> [name-substring]   (scratch copies live under /tmp/fa-mut-* and are removed)
"""

import json
import os
import shutil
import subprocess
import sys
import tempfile
import time

VERIF = os.path.dirname(os.path.dirname(os.path.abspath(__file__)))
sys.path.insert(0, VERIF)
from tools.mutant_defs import MUTANTS  # noqa: E402


def run(prop, only=None, episodes=None):
    rows = []
    for m in MUTANTS:
        if m["prop"] != prop or (only and only not in m["name"]):
            continue
        d = tempfile.mkdtemp(prefix="fa-mut-")
        try:
            # /repo's HEAD, not its working tree: other tools may be running against it at the same time
            subprocess.run("git -C /repo archive HEAD functional_algorithms pyproject.toml | tar -x -C " + d, shell=True, check=True)
            for fn, old, new in m["edits"]:
                p = os.path.join(d, fn)
                s = open(p).read()
                if s.count(old) != 1:
                    raise SystemExit("mutant %s: pattern occurs %d times in %s" % (m["name"], s.count(old), fn))
                open(p, "w").write(s.replace(old, new))
            env = dict(os.environ, VERIF_REPO=d, VERIF_EVIDENCE_DIR=d + "/evidence", VERIF_REPLAY_DIR=d + "/replays")
            t0 = time.time()
            cmd = [VERIF + "/check", prop] + (["--episodes", str(episodes)] if episodes else [])
            p = subprocess.run(cmd, capture_output=True, text=True, env=env)
            dt = time.time() - t0
            viol = [l for l in p.stdout.splitlines() if l.startswith("violation class")]
            tests = ""
            if m.get("tests"):
                t = subprocess.run(
                    ["/venv/bin/python", "-m", "pytest", "-q", "-x", "-p", "no:cacheprovider"] + m["tests"],
                    capture_output=True, text=True, cwd=d, env=dict(os.environ, PYTHONPATH=d, PATH="/venv/bin:" + os.environ["PATH"]),
                )
                tests = "tests-pass" if t.returncode == 0 else "TESTS-FAIL"
            rows.append((m["name"], p.returncode, round(dt, 1), tests, viol[:2]))
            print("%-40s exit=%d %5.1fs %s %s" % (m["name"], p.returncode, dt, tests, viol[:1]), flush=True)
            if p.returncode not in (0, 1):
                print("   ", [l for l in p.stdout.splitlines() if "HARNESS" in l][:2])
        finally:
            shutil.rmtree(d, ignore_errors=True)
            # replays written for mutants are not evidence about /repo
    return rows


if __name__ == "__main__":
    run(sys.argv[1], sys.argv[2] if len(sys.argv) > 2 else None)
