#!/bin/bash
# tools/import_seeded.sh <agent-worktree> <name> "<test files>"
# Copies the agent's deliverables to /verif/seeded/<name>/ and confirms, in a fresh scratch worktree of /repo's HEAD:
#   demo passes without the patch, fails with it; the given existing tests pass with it.
set -u
wt=$1; name=$2; tests=${3:-}
dst=/verif/seeded/$name
mkdir -p "$dst"
cp "$wt/seeded/patch.diff" "$wt/seeded/demo.py" "$wt/seeded/meta.json" "$dst/" || exit 2
scratch=/tmp/confirm-$name
git -C /repo worktree add -q --detach "$scratch" HEAD || exit 2
cd "$scratch"
run() { PYTHONPATH=$scratch PATH=/venv/bin:$PATH PYTHONDONTWRITEBYTECODE=1 "$@"; }
mkdir -p seeded; cp "$dst/demo.py" seeded/
run timeout 900 /venv/bin/python seeded/demo.py > "$dst/demo_without.log" 2>&1; a=$?
git apply "$dst/patch.diff" || { echo "PATCH DOES NOT APPLY to /repo HEAD"; a=99; }
run timeout 900 /venv/bin/python seeded/demo.py > "$dst/demo_with.log" 2>&1; b=$?
t=skipped
if [ -n "$tests" ]; then run timeout 3000 /venv/bin/python -m pytest -q -p no:cacheprovider -x -n 4 $tests > "$dst/tests_with.log" 2>&1; t=$?; fi
echo "$name: demo_without_patch=$a demo_with_patch=$b tests_with_patch=$t"
tail -3 "$dst/demo_with.log"
cd /; git -C /repo worktree remove --force "$scratch"
