#!/bin/bash
# Re-runs every seeded change against the check of its property (quick tier) and prints one line each:
#   <name> <property> exit=<rc> <classes> classes, <n> violating episodes in the largest class
# usage: tools/seeded_regression.sh [pattern] [parallel]     e.g.  tools/seeded_regression.sh 'C0[569]-*' 2
cd /verif
pat=${1:-*}
par=${2:-1}
one() {
  d=$1
  n=$(basename $d)
  prop=$(python3 -c "import json;print(json.load(open('$d/meta.json'))['property'])")
  out=$(tools/run_seeded.sh $d $prop 2>&1)
  rc=$(echo "$out" | grep -o "exit=[0-9]*" | head -1)
  eps=$(echo "$out" | grep '^violation class' | grep -o 'episodes=[0-9]*' | cut -d= -f2 | sort -n | tail -1)
  echo "$n $prop $rc $(echo "$out" | grep -c '^violation class') classes, ${eps:-0} episodes"
}
export -f one
ls -d seeded/$pat/ | xargs -P "$par" -I{} bash -c 'one {}'
