#!/bin/bash
# Re-runs every seeded change against the check of its property (quick tier) and prints one line each.
cd /verif
for d in seeded/*/; do
  n=$(basename $d)
  prop=$(python3 -c "import json;print(json.load(open('$d/meta.json'))['property'])")
  out=$(tools/run_seeded.sh $d $prop 2>&1)
  rc=$(echo "$out" | grep -o "exit=[0-9]*" | head -1)
  echo "$n $prop $rc $(echo "$out" | grep -c '^violation class') classes"
done
