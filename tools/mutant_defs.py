"""Known-bad edits used to measure the sensitivity of the checks (never applied to /repo)."""

FPU = "functional_algorithms/fpu.py"
T_FPU = ["functional_algorithms/tests/test_fpu.py"]

MUTANTS = [
    dict(prop="C18", name="exit-skips-restore-on-exception", tests=T_FPU, edits=[(FPU,
        "                assert self.saved_state is not None\n                self.register.set_mxcsr(self.saved_state)\n",
        "                assert self.saved_state is not None\n                if exc_type is None:\n                    self.register.set_mxcsr(self.saved_state)\n")]),
    dict(prop="C18", name="exit-skips-restore-on-nonException-base", tests=T_FPU, edits=[(FPU,
        "                assert self.saved_state is not None\n                self.register.set_mxcsr(self.saved_state)\n",
        "                assert self.saved_state is not None\n                if exc_type is None or issubclass(exc_type, Exception):\n                    self.register.set_mxcsr(self.saved_state)\n")]),
    dict(prop="C18", name="exit-restores-only-FZ-DAZ", tests=T_FPU, edits=[(FPU,
        "                self.register.set_mxcsr(self.saved_state)\n",
        "                cur = self.register.get_mxcsr().value\n                keep = (1 << 15) | (1 << 6)\n                self.register.set_mxcsr(ctypes.c_uint32((cur & ~keep) | (self.saved_state.value & keep)))\n")]),
    dict(prop="C18", name="enter-saves-after-setting", tests=T_FPU, edits=[(FPU,
        "                self.register.set_mxcsr(ctypes.c_uint32((entry_value & ~mask) | (self.desired_state.value & mask)))\n",
        "                self.register.set_mxcsr(ctypes.c_uint32((entry_value & ~mask) | (self.desired_state.value & mask)))\n                self.saved_state = self.register.get_mxcsr()\n")]),
    dict(prop="C18", name="missing-tilde-clearing-DAZ", tests=T_FPU, edits=[(FPU,
        "                new_value &= ~(1 << 6)\n", "                new_value &= (1 << 6)\n")]),
    dict(prop="C18", name="RN-up-down-swapped", tests=T_FPU, edits=[(FPU,
        "dict(nearest=0, down=1, up=2, towardszero=3)[RN]", "dict(nearest=0, down=2, up=1, towardszero=3)[RN]")]),
    dict(prop="C18", name="DAZ-on-wrong-bit-consistently", tests=T_FPU, edits=[
        (FPU, "        return (self.get_mxcsr().value & (1 << 6)) != 0", "        return (self.get_mxcsr().value & (1 << 8)) != 0"),
        (FPU, "                new_value |= 1 << 6\n", "                new_value |= 1 << 8\n"),
        (FPU, "                new_value &= ~(1 << 6)\n", "                new_value &= ~(1 << 8)\n"),
        (FPU, "(0 if DAZ is None else 1 << 6)", "(0 if DAZ is None else 1 << 8)")]),
    dict(prop="C18", name="saved-state-on-register-object", tests=T_FPU, edits=[(FPU,
        "                self.saved_state = self.register.get_mxcsr()\n                entry_value = self.saved_state.value\n",
        "                self.saved_state = self.register.get_mxcsr()\n                self.register._saved = self.saved_state\n                entry_value = self.saved_state.value\n"),
        (FPU, "                self.register.set_mxcsr(self.saved_state)\n", "                self.register.set_mxcsr(self.register._saved)\n")]),
    dict(prop="C18", name="shared-c_uint32-buffer-in-get_mxcsr", tests=T_FPU, edits=[(FPU,
        "        val = ctypes.c_uint32()\n        self._get_mxcsr(ctypes.byref(val))\n        return val\n",
        "        if not hasattr(self, '_buf'):\n            self._buf = ctypes.c_uint32()\n        val = self._buf\n        self._get_mxcsr(ctypes.byref(val))\n        return val\n")]),
    dict(prop="C18", name="exit-clears-requested-bits-instead-of-restoring", tests=T_FPU, edits=[(FPU,
        "                self.register.set_mxcsr(self.saved_state)\n",
        "                self.register.set_mxcsr(ctypes.c_uint32(self.register.get_mxcsr().value & ~mask))\n")]),
    dict(prop="C18", name="restore-drops-status-and-masks-to-default", tests=T_FPU, edits=[(FPU,
        "                self.register.set_mxcsr(self.saved_state)\n",
        "                self.register.set_mxcsr(ctypes.c_uint32((self.saved_state.value & 0xE040) | 0x1F80))\n")]),
    dict(prop="C18", name="revert-fix-desired-state-from-creation-time", tests=T_FPU, edits=[(FPU,
        "ctypes.c_uint32((entry_value & ~mask) | (self.desired_state.value & mask))", "self.desired_state")]),
    dict(prop="C18", name="nested-depth-ge3-not-restored", tests=T_FPU, edits=[
        (FPU, "                self.saved_state = self.register.get_mxcsr()\n                entry_value",
              "                self.saved_state = self.register.get_mxcsr()\n                self.register._depth = getattr(self.register, '_depth', 0) + 1\n                entry_value"),
        (FPU, "                self.register.set_mxcsr(self.saved_state)\n",
              "                self.register._depth -= 1\n                if self.register._depth < 3:\n                    self.register.set_mxcsr(self.saved_state)\n")]),
]

EXPR = "functional_algorithms/expr.py"
CTX = "functional_algorithms/context.py"
TYP = "functional_algorithms/typesystem.py"
T_EXPR = ["functional_algorithms/tests/test_expr.py", "functional_algorithms/tests/test_functional_algorithms.py", "functional_algorithms/tests/test_context.py"]

MUTANTS += [
    dict(prop="C07", name="revert-fix-sign-of-zero-in-constant-key", tests=T_EXPR, edits=[(EXPR,
        "(value, type(value).__name__, _sign_of_zero(value))", "(value, type(value).__name__)")]),
    dict(prop="C07", name="two-level-intkey-drops-operand-kind", tests=T_EXPR, edits=[(EXPR,
        "        return (self.kind, *(op.intkey for op in self.operands))\n",
        "        return (*(op.intkey for op in self.operands),)\n"),
        (EXPR, "            return (self.kind, self.intkey)\n", "            return (self.intkey,)\n")]),
    dict(prop="C07", name="operations-keyed-by-first-two-operands", tests=T_EXPR, edits=[(EXPR,
        "            r = (self.kind, *(operand._two_level_intkey for operand in self.operands))\n",
        "            r = (self.kind, *(operand._two_level_intkey for operand in self.operands[:2]))\n")]),
    dict(prop="C07", name="constant-key-drops-type-name", tests=T_EXPR, edits=[(EXPR,
        "(value, type(value).__name__, _sign_of_zero(value))", "(value, _sign_of_zero(value))")]),
    dict(prop="C07", name="constant-key-drops-like", tests=T_EXPR, edits=[(EXPR,
        "                like.key,\n            )\n", "            )\n")]),
    dict(prop="C07", name="symbol-key-drops-type", tests=T_EXPR, edits=[(EXPR,
        "            r = (self.kind, *self.operands)\n", "            r = (self.kind, self.operands[0])\n")]),
    dict(prop="C07", name="register-inserts-before-assigning-id", tests=T_EXPR, edits=[(CTX,
        "            expr._set_serialized_id(self._expression_counter)\n            self._expression_counter += 1\n\n            prev = self._expressions[expr.key] = expr\n",
        "            prev = self._expressions[expr.key] = expr\n            expr._set_serialized_id(self._expression_counter)\n            self._expression_counter += 1\n")]),
    dict(prop="C07", name="table-keyed-by-hash-of-key-mod", tests=T_EXPR, edits=[
        (CTX, "        prev = self._expressions.get(expr.key)\n", "        prev = self._expressions.get(hash(expr.key) % 4093)\n"),
        (CTX, "            prev = self._expressions[expr.key] = expr\n", "            prev = self._expressions[hash(expr.key) % 4093] = expr\n")]),
    dict(prop="C07", name="type-eq-ignores-bits", tests=T_EXPR, edits=[(TYP,
        "            return self.context is other.context and self.kind == other.kind and self.param == other.param\n",
        "            return self.context is other.context and self.kind == other.kind\n"),
        (TYP, "        return hash((self.kind, self.param))\n", "        return hash(self.kind)\n")]),
    dict(prop="C07", name="counter-not-advanced-after-64", tests=T_EXPR, edits=[(CTX,
        "            self._expression_counter += 1\n", "            self._expression_counter += 1 if self._expression_counter != 200 else 0\n")]),
    dict(prop="C07", name="commutative-add-key-sorted", tests=T_EXPR, edits=[(EXPR,
        "            r = (self.kind, *(operand._two_level_intkey for operand in self.operands))\n",
        "            ks = [operand._two_level_intkey for operand in self.operands]\n            r = (self.kind, *(sorted(ks) if self.kind == 'subtract' else ks))\n")]),
    dict(prop="C07", name="int-and-bool-constants-share-key", tests=T_EXPR, edits=[(EXPR,
        "(value, type(value).__name__, _sign_of_zero(value))", "(value, type(value).__name__.replace('bool', 'int'), _sign_of_zero(value))")]),
    dict(prop="C07", name="numpy-float64-and-float-share-key", tests=T_EXPR, edits=[(EXPR,
        "(value, type(value).__name__, _sign_of_zero(value))", "(value, type(value).__name__.replace('float64', 'float'), _sign_of_zero(value))")]),
]

REW = "functional_algorithms/rewrite.py"
T_GEN = ["functional_algorithms/tests/test_functional_algorithms.py", "functional_algorithms/tests/test_expr.py", "functional_algorithms/tests/test_context.py"]

MUTANTS += [
    dict(prop="C09", name="logical-and-or-ordered-by-id", tests=T_GEN, edits=[
        (REW, "        if x.key > y.key:\n            return expr.context.logical_and(y, x)\n", "        if id(x) > id(y):\n            return expr.context.logical_and(y, x)\n"),
        (REW, "        if x.key > y.key:\n            return expr.context.logical_or(y, x)\n", "        if id(x) > id(y):\n            return expr.context.logical_or(y, x)\n")]),
    dict(prop="C09", name="eq-ne-ordered-by-id", tests=T_GEN, edits=[
        (REW, "            if x.key > y.key:\n                # make eq and ne unique", "            if id(x) > id(y):\n                # make eq and ne unique")]),
    dict(prop="C09", name="ctx-call-iterates-local-names-as-set", tests=T_GEN, edits=[
        (CTX, "        for name, obj in frame.f_locals.items():\n", "        for name in set(frame.f_locals):\n            obj = frame.f_locals[name]\n")]),
    dict(prop="C09", name="stack-call-count-process-global", tests=T_GEN, edits=[
        (CTX, "        self._stack_call_count = defaultdict(int)\n", "        self._stack_call_count = _GLOBAL_CALL_COUNT\n"),
        (CTX, "class Context:\n", "_GLOBAL_CALL_COUNT = defaultdict(int)\n\n\nclass Context:\n")]),
    dict(prop="C09", name="ref-values-registry-process-global", tests=T_GEN, edits=[
        (CTX, "        self._ref_values = {}  # TODO: move to printer context\n", "        self._ref_values = _GLOBAL_REFS\n"),
        (CTX, "class Context:\n", "_GLOBAL_REFS = {}\n\n\nclass Context:\n")]),
    dict(prop="C09", name="value-symbol-named-by-tmp-counter", tests=T_GEN, edits=[
        (CTX, "                like_expr = self.symbol(\"_value\", self._default_constant_type)\n", "                like_expr = self.symbol(None, self._default_constant_type)\n")]),
    dict(prop="C09", name="rewrite-skipped-after-first-warn-once", tests=T_GEN, edits=[
        (EXPR, "        rewrite_context = RewriteContext() if _rewrite_context is None else _rewrite_context\n",
               "        rewrite_context = RewriteContext() if _rewrite_context is None else _rewrite_context\n        if modifier is _LAST_MODIFIER[0] and len(_LAST_MODIFIER) > 40 and self.kind == 'negative':\n            return self\n        _LAST_MODIFIER.append(0)\n        _LAST_MODIFIER[0] = modifier\n"),
        (EXPR, "def normalize_like(expr):\n", "_LAST_MODIFIER = [None]\n\n\ndef normalize_like(expr):\n")]),
    dict(prop="C09", name="need-ref-forced-by-gc-generation", tests=T_GEN, edits=[
        (EXPR, "                    need_ref[ref] = expr.props.get(\"force_ref\", False)\n",
               "                    need_ref[ref] = expr.props.get(\"force_ref\", False) or (id(expr) % 4096 == 0 and expr.kind == 'multiply')\n")]),
]

PY = "functional_algorithms/targets/python.py"
NP = "functional_algorithms/targets/numpy.py"
CPP = "functional_algorithms/targets/cpp.py"
XLA = "functional_algorithms/targets/xla_client.py"
HLO = "functional_algorithms/targets/stablehlo.py"
BASE = "functional_algorithms/targets/base.py"
T_TGT = ["functional_algorithms/tests/test_functional_algorithms.py", "functional_algorithms/tests/test_expr.py"]

MUTANTS += [
    dict(prop="C05", name="revert-fix-cpp-argument-by-symbol-name", tests=T_TGT, edits=[(CPP, 'return f"{typ} {arg.ref}"', 'return f"{typ} {arg}"')]),
    dict(prop="C05", name="revert-fix-negzero-identifier", tests=T_TGT, edits=[
        (EXPR, "        if value == 0 and math.copysign(1, value) < 0:\n", "        if False:\n"),
        (EXPR, "        if value == 0 and numpy.signbit(value):\n", "        if False:\n")]),
    dict(prop="C05", name="python-subtract-operands-swapped", tests=T_TGT, edits=[(PY, 'subtract="({0}) - ({1})"', 'subtract="({1}) - ({0})"')]),
    dict(prop="C05", name="numpy-constants-always-float64", tests=T_TGT, edits=[(NP,
        '        typ = self.get_type(like)\n        s = str(value)\n        s = {"inf"', '        typ = "numpy.float64"\n        s = str(value)\n        s = {"inf"')]),
    dict(prop="C05", name="printer-defined-refs-class-level", tests=T_TGT, edits=[(BASE,
        "        self.defined_refs = set()\n        self.assignments = []\n", "        self.defined_refs = _DEFINED\n        self.assignments = []\n"),
        (BASE, "class PrinterBase:\n", "_DEFINED = set()\n\n\nclass PrinterBase:\n")]),
    dict(prop="C05", name="register-reference-suffix-counter-stuck", tests=T_TGT, edits=[(CTX,
        "                elif other is not None:\n                    counter += 1\n                    ref_name_ = f\"_{ref_name}_{counter}_\"\n",
        "                elif other is not None:\n                    counter += 1\n                    break\n")]),
    dict(prop="C05", name="cpp-log1p-spelled-log", tests=T_TGT, edits=[(CPP, 'log1p="std::log1p({0})"', 'log1p="std::log({0})"')]),
    dict(prop="C05", name="cpp-select-branches-swapped", tests=T_TGT, edits=[(CPP, 'select="(({0}) ? ({1}) : ({2}))"', 'select="(({0}) ? ({2}) : ({1}))"')]),
    dict(prop="C05", name="numpy-ge-spelled-greater", tests=T_TGT, edits=[(NP, 'ge="numpy.greater_equal({0}, {1})"', 'ge="numpy.greater({0}, {1})"')]),
    dict(prop="C05", name="origin-prefix-dropped-on-conflict", tests=T_TGT, edits=[(CTX,
        '            ref_name = expr.props["origin"] + ref_name\n', '            ref_name = ref_name\n')]),
    dict(prop="C05", name="python-largest-constant-is-min", tests=T_TGT, edits=[(PY, 'largest="sys.float_info.max"', 'largest="sys.float_info.min"')]),

    dict(prop="C06", name="revert-fix-xla-constant-like-by-ref", tests=T_TGT, edits=[(XLA,
        'return f"ScalarLike({self.tostring(like)}, {value})"', 'return f"ScalarLike({like.ref}, {value})"')]),
    dict(prop="C06", name="revert-fix-xla-argument-by-symbol-name", tests=T_TGT, edits=[(XLA, 'return f"{typ} {arg.ref}"', 'return f"{typ} {arg}"')]),
    dict(prop="C06", name="revert-fix-negzero-identifier", tests=T_TGT, edits=[
        (EXPR, "        if value == 0 and math.copysign(1, value) < 0:\n", "        if False:\n"),
        (EXPR, "        if value == 0 and numpy.signbit(value):\n", "        if False:\n")]),
    dict(prop="C06", name="xla-sub-operands-swapped", tests=T_TGT, edits=[(XLA, 'subtract="Sub({0}, {1})"', 'subtract="Sub({1}, {0})"')]),
    dict(prop="C06", name="xla-le-spelled-lt", tests=T_TGT, edits=[(XLA, 'le="Le({0}, {1})"', 'le="Lt({0}, {1})"')]),
    dict(prop="C06", name="hlo-divide-operands-swapped", tests=T_TGT, edits=[(HLO,
        "            for operand in expr.operands:\n                op_lines = self.tostring(operand, tab=tab + \"  \").splitlines()\n",
        "            for operand in (expr.operands[::-1] if expr.kind == 'divide' else expr.operands):\n                op_lines = self.tostring(operand, tab=tab + \"  \").splitlines()\n")]),
    dict(prop="C06", name="hlo-comparison-direction-ge-as-gt", tests=T_TGT, edits=[(HLO,
        'StableHLO_ComparisonDirectionValue<"{expr.kind.upper()}">', 'StableHLO_ComparisonDirectionValue<"{expr.kind.upper().replace(\'GE\', \'GT\')}">')]),
    dict(prop="C06", name="hlo-binding-repeated-at-use", tests=T_TGT, edits=[(HLO,
        '        if expr.ref in self.defined_refs:\n            assert self.need_ref.get(expr.ref), expr.ref\n            return f"{tab}${expr.ref}"\n\n        self.defined_refs.add(expr.ref)\n',
        '        if expr.ref in self.defined_refs and expr.kind != "multiply":\n            assert self.need_ref.get(expr.ref), expr.ref\n            return f"{tab}${expr.ref}"\n\n        self.defined_refs.add(expr.ref)\n')]),
    dict(prop="C06", name="hlo-constant-like-not-checked-for-definition", tests=T_TGT, edits=[(HLO,
        "            if like.ref in self.defined_refs:\n", "            if True:\n")]),
    dict(prop="C06", name="hlo-printer-defined-refs-class-level", tests=T_TGT, edits=[(HLO,
        "        self.need_ref = need_ref\n        self.defined_refs = set()\n", "        self.need_ref = need_ref\n        self.defined_refs = _DEFINED\n"),
        (HLO, "class Printer:\n", "_DEFINED = set()\n\n\nclass Printer:\n")]),
    dict(prop="C06", name="hlo-named-constant-largest-as-smallest", tests=T_TGT, edits=[(HLO,
        'largest="StableHLO_ConstantLikeMaxFiniteValue"', 'largest="StableHLO_ConstantLikeSmallestNormalizedValue"')]),
    dict(prop="C06", name="xla-constant-value-low-precision", tests=T_TGT, edits=[(CPP,
        "        s = str(value)\n        if s == \"inf\":", "        s = ('%.12g' % value) if isinstance(value, float) else str(value)\n        if s == \"inf\":")]),
]
