#!/bin/bash
# tools/run_seeded.sh <seeded-dir> [check ids...]  -- apply seeded/<id>/patch.diff to a scratch export of /repo's HEAD
# and run the checks against it (VERIF_REPO).  /repo itself is never touched, so several of these, the hand mutants
# and ordinary checks can run side by side.  (Equivalent by hand: git -C /repo apply <patch>; ./check <id>; git -C /repo checkout -- .)
# Replays and evidence of these runs go to the scratch directory: they say nothing about the unchanged tree.
set -u
dir=$(realpath "$1"); shift
checks=${*:-$(python3 -c "import json;print(json.load(open('$dir/meta.json'))['property'])")}
scratch=$(mktemp -d /tmp/fa-seeded-XXXX)
mkdir "$scratch/repo"
git -C /repo archive HEAD functional_algorithms pyproject.toml | tar -x -C "$scratch/repo" || exit 2
(cd "$scratch/repo" && git apply "$dir/patch.diff") || { echo "patch does not apply"; rm -rf "$scratch"; exit 2; }
rc_all=0
for c in $checks; do
  VERIF_REPO=$scratch/repo VERIF_EVIDENCE_DIR=$scratch/evidence VERIF_REPLAY_DIR=$scratch/replays /verif/check "$c" --tier "${TIER:-quick}" > "$scratch/$c.log" 2>&1
  rc=$?
  echo "== $c exit=$rc"
  grep -E "^violation class|^  detail|^VIOLATION|^HARNESS|^episodes=" "$scratch/$c.log" | cut -c1-700 | head -12
  [ $rc -ne 0 ] && rc_all=$rc
done
rm -rf "$scratch"
exit $rc_all
