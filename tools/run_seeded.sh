#!/bin/bash
# tools/run_seeded.sh <seeded-dir> [check ids...]  -- apply seeded/<id>/patch.diff to /repo, run checks, undo.
# Replays and evidence of these runs go to a scratch directory: they say nothing about the unchanged tree.
set -u
dir=$(realpath "$1"); shift
checks=${*:-$(python3 -c "import json;print(json.load(open('$dir/meta.json'))['property'])")}
cd /repo || exit 2
if ! git diff --quiet; then echo "/repo has uncommitted changes; refusing"; exit 2; fi
git apply "$dir/patch.diff" || { echo "patch does not apply"; exit 2; }
scratch=$(mktemp -d /tmp/fa-seeded-XXXX)
rc_all=0
for c in $checks; do
  VERIF_EVIDENCE_DIR=$scratch/evidence VERIF_REPLAY_DIR=$scratch/replays /verif/check "$c" --tier "${TIER:-quick}" > "$scratch/$c.log" 2>&1
  rc=$?
  echo "== $c exit=$rc"
  grep -E "^violation class|^  detail|^VIOLATION|^HARNESS|^episodes=" "$scratch/$c.log" | cut -c1-700 | head -12
  [ $rc -ne 0 ] && rc_all=$rc
done
git -C /repo checkout -- .
git -C /repo status --short | grep -v '^??' | head
rm -rf "$scratch"
exit $rc_all
